#!/usr/bin/env python3
"""store_mutants.py <prop> <m1 result> <m2 result> [confirm files...]: copy a sub-agent's OUT/ into /verif/seeded/<prop>-m<n>/"""
import json, os, shutil, re, sys, glob
pid=sys.argv[1]; results={'m1':sys.argv[2],'m2':sys.argv[3]}
out=f'/tmp/wt/{pid}/OUT'
verdicts={}
for f in sys.argv[4:]:
    for l in open(f):
        if l.startswith('VERDICT'):
            m=re.match(r'VERDICT (\S+): (.*)', l.strip()); verdicts[m.group(1)]=m.group(2)
head=subprocess_head=os.popen(f'git -C /tmp/wt/{pid} rev-parse --short HEAD').read().strip()
off=int(os.environ.get('ROUND_OFFSET','0'))  # second round: OUT/m1, m2 are stored as m3, m4
for m in ('m1','m2'):
    d=f'/verif/seeded/{pid}-m{int(m[1])+off}'
    os.makedirs(d, exist_ok=True)
    shutil.copy(f'{out}/{m}.diff', f'{d}/patch.diff')
    demos=[p for p in glob.glob(f'{out}/demo_{m}*')]
    for p in demos: shutil.copy(p, d)
    if os.path.exists(f'{out}/notes.md'): shutil.copy(f'{out}/notes.md', f'{d}/notes_from_author.md')
    meta={
      'property': pid,
      'origin': f'written by an independent sub-agent that saw only the property text and a scratch worktree of /repo (commit {head}), nothing from /verif',
      'patch': 'patch.diff (git apply in /repo)',
      'demonstration': [os.path.basename(p) for p in demos],
      'needs_to_manifest': 'see notes_from_author.md, section for ' + m,
      'confirmed_by_me_in_scratch_worktree': verdicts.get(f'{out}/{m}.diff','?'),
      'commands_run': ['/verif/confirm_mutant.sh or confirm_mutant_lib.sh (patch applies; existing lib tests pass with it; demonstration fails with it and passes without)', f'/verif/try_mutant.sh {d}/patch.diff {pid} (scratch worktree of /repo HEAD + patch, simulator rebuilt against it, verifsim run {pid} quick)'],
      'check_result': results[m],
    }
    json.dump(meta, open(f'{d}/meta.json','w'), indent=1)
    print(d, meta['confirmed_by_me_in_scratch_worktree'][:60])
