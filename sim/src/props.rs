//! Property registry: which engine decides which property, with budgets and
//! the fixed descriptive parts of the evidence.

use crate::core::{RunFn, Tier};
use crate::engines;

pub struct PropSpec {
    pub id: &'static str,
    pub engine: &'static str,
    pub level: &'static str,
    pub runs_quick: u64,
    pub runs_thorough: u64,
    pub rule: &'static str,
    pub state_measure: &'static str,
    pub real: &'static [&'static str],
    pub stubbed: &'static [&'static str],
    pub assumptions: &'static [&'static str],
    pub expected_probes: &'static [&'static str],
}

const SPECS: &[PropSpec] = &[PropSpec {
    id: "C13",
    engine: "logsim",
    level: "exploration",
    runs_quick: 400_000,
    runs_thorough: 8_000_000,
    rule: "one run = one seeded history of appends (four size classes, bursts) interleaved with reads by 1-4 independent cursor holders using cursors the log issued (tail, entry tag, continuation; fresh and stale) and fabricated cursors, on a seeded segment size/count; distinct = distinct trace hash; non-trivial = at least one eviction happened AND at least one read used a stale cursor or crossed a segment boundary",
    state_measure: "(segments in memory, tail-head, entries mod 256) after every operation",
    real: &["rumqttd::segments::CommitLog", "rumqttd::segments::segment::Segment"],
    stubbed: &[],
    assumptions: &[
        "which entries are retained is observed through append()'s return value and _head_and_tail(), not through readv",
        "single-threaded: the commit log is owned by the router thread in production",
    ],
    expected_probes: &["eviction", "stale_cursor_read", "read_across_segments", "fabricated_cursor_read", "segment_rotation"],
}];

pub fn all() -> &'static [PropSpec] {
    SPECS
}

pub fn find(id: &str) -> Option<&'static PropSpec> {
    SPECS.iter().find(|p| p.id == id)
}

pub fn runner(id: &'static str, tier: Tier) -> Box<RunFn> {
    match id {
        "C13" => Box::new(move |ch, rep| engines::logsim::run(tier, ch, rep)),
        _ => panic!("no engine for {id}"),
    }
}
