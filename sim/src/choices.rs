//! The single source of nondeterminism of a simulated run.
//!
//! Every decision of a run is `pick(n)`. In generate mode the values come
//! from an in-crate xoshiro256** PRNG seeded from one integer and are
//! recorded; in replay mode the recorded values are returned (reduced modulo
//! `n`, so a shrunk vector stays meaningful) and 0 once they run out.

#[derive(Clone)]
struct Rng {
    s: [u64; 4],
}

fn splitmix(x: &mut u64) -> u64 {
    *x = x.wrapping_add(0x9E37_79B9_7F4A_7C15);
    let mut z = *x;
    z = (z ^ (z >> 30)).wrapping_mul(0xBF58_476D_1CE4_E5B9);
    z = (z ^ (z >> 27)).wrapping_mul(0x94D0_49BB_1331_11EB);
    z ^ (z >> 31)
}

impl Rng {
    fn new(seed: u64) -> Rng {
        let mut x = seed;
        Rng {
            s: [
                splitmix(&mut x),
                splitmix(&mut x),
                splitmix(&mut x),
                splitmix(&mut x),
            ],
        }
    }

    fn next(&mut self) -> u64 {
        let result = self.s[1].wrapping_mul(5).rotate_left(7).wrapping_mul(9);
        let t = self.s[1] << 17;
        self.s[2] ^= self.s[0];
        self.s[3] ^= self.s[1];
        self.s[1] ^= self.s[2];
        self.s[0] ^= self.s[3];
        self.s[2] ^= t;
        self.s[3] = self.s[3].rotate_left(45);
        result
    }
}

/// Mixes a base seed and a run index into the seed of that run.
pub fn mix(seed: u64, index: u64) -> u64 {
    let mut x = seed ^ index.wrapping_mul(0xD6E8_FEB8_6659_FD93).rotate_left(23);
    let a = splitmix(&mut x);
    let mut y = a ^ index;
    splitmix(&mut y)
}

#[derive(Clone)]
pub struct Choices {
    rng: Option<Rng>,
    replay: Vec<u32>,
    pos: usize,
    pub log: Vec<u32>,
    pub seed: u64,
}

impl Choices {
    pub fn generate(seed: u64) -> Choices {
        Choices {
            rng: Some(Rng::new(seed)),
            replay: Vec::new(),
            pos: 0,
            log: Vec::with_capacity(512),
            seed,
        }
    }

    pub fn replay(seed: u64, values: Vec<u32>) -> Choices {
        Choices {
            rng: None,
            replay: values,
            pos: 0,
            log: Vec::with_capacity(512),
            seed,
        }
    }

    /// A value in `0..n` (`n == 0` yields 0 and records nothing).
    pub fn pick(&mut self, n: u32) -> u32 {
        if n <= 1 {
            return 0;
        }
        let v = match &mut self.rng {
            Some(rng) => (rng.next() >> 33) as u32 % n,
            None => {
                let v = self.replay.get(self.pos).copied().unwrap_or(0) % n;
                self.pos += 1;
                v
            }
        };
        self.log.push(v);
        v
    }

    /// A pick whose generated value is fixed (`value`) but which a replayed
    /// or shrunk log may override: lets an engine that normally enumerates a
    /// dimension replay one point of it.
    pub fn pick_forced(&mut self, n: u32, value: u32) -> u32 {
        let v = match &mut self.rng {
            Some(_) => value % n,
            None => {
                let v = self.replay.get(self.pos).copied().unwrap_or(value) % n;
                self.pos += 1;
                v
            }
        };
        self.log.push(v);
        v
    }

    /// True with probability `num/den`.
    pub fn coin(&mut self, num: u32, den: u32) -> bool {
        self.pick(den) < num
    }

    /// A value in `lo..=hi`.
    pub fn range(&mut self, lo: u32, hi: u32) -> u32 {
        lo + self.pick(hi - lo + 1)
    }

    /// Index chosen by weight (weights need not be normalised; zero weights
    /// are never chosen). Returns `None` if all weights are zero.
    pub fn weighted(&mut self, weights: &[u32]) -> Option<usize> {
        let total: u32 = weights.iter().sum();
        if total == 0 {
            return None;
        }
        let mut v = self.pick(total);
        for (i, w) in weights.iter().enumerate() {
            if v < *w {
                return Some(i);
            }
            v -= *w;
        }
        None
    }

    pub fn choose<'a, T>(&mut self, items: &'a [T]) -> &'a T {
        &items[self.pick(items.len() as u32) as usize]
    }

    /// Geometric count: number of successes before the first failure of a
    /// `num/den` coin, capped.
    pub fn geometric(&mut self, num: u32, den: u32, cap: u32) -> u32 {
        let mut k = 0;
        while k < cap && self.coin(num, den) {
            k += 1;
        }
        k
    }
}
