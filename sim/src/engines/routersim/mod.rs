//! routersim: the real rumqttd routing core under a seeded scheduler.
//!
//! Real: `Router` (`run_inner`, `events`, `consume`, everything under
//! `router/` and `segments/`), `LinkBuilder`/`LinkTx`/`LinkRx` primitives.
//! Stub: the per-connection task (`remote()` / `RemoteLink::start`) is replaced
//! by a *link actor* that performs the same buffer and channel operations;
//! clients are models that obey MQTT (or, for C03/C14, deliberately do not).

pub mod spec;
mod world;

pub use world::run;

#[derive(Debug, Clone, Copy, PartialEq, Eq)]
pub enum P {
    C01,
    C03,
    C06,
    C08,
    C09,
    C14,
    C15,
    C16,
    C17,
}

impl P {
    pub fn id(self) -> &'static str {
        match self {
            P::C01 => "C01",
            P::C03 => "C03",
            P::C06 => "C06",
            P::C08 => "C08",
            P::C09 => "C09",
            P::C14 => "C14",
            P::C15 => "C15",
            P::C16 => "C16",
            P::C17 => "C17",
        }
    }
}
