//! The oracles of C02, C07, C10, C11 that look at the wire, at the events
//! returned by `poll()` and at the public state of the event loop.

use super::cfg::P;
use super::cl::{ErrKind, Ev, PErr, Rq, Snapshot};
use super::proto::{Pk, R_FAIL, R_OK};
use super::world::{Carry, ReqKind, Where, World};
use crate::tr;
use std::collections::BTreeSet;

fn s(b: &[u8]) -> String {
    String::from_utf8_lossy(b).into_owned()
}

impl<'a> World<'a> {
    fn ver(&self) -> &'static str {
        if self.cfg.v5 {
            "v5"
        } else {
            "v4"
        }
    }

    // -----------------------------------------------------------------------
    // Wire level: a user request (publish / subscribe / unsubscribe) arrived
    // -----------------------------------------------------------------------

    pub fn check_wire_request(&mut self, idx: usize, ri: usize, is_new: bool, id: Option<u16>) {
        if is_new {
            self.new_wire.push(ri);
        }
        if !self.is(P::C07) {
            return;
        }
        let limit = self.conns[idx].limit_eff.max(1);
        let key = s(&self.reqs[ri].key);
        // (a) id range
        if let Some(p) = id {
            if p == 0 {
                self.violate(
                    format!("pkid_out_of_range:zero:{}", self.ver()),
                    format!("request {key} is on the wire of connection #{idx} with packet id 0"),
                );
            } else if p > limit && p <= self.cfg.limit.max(1) {
                // the statement bounds ids by the CONFIGURED limit; a lowered
                // receive-maximum bounds the count (checked separately), and an
                // id given out under a larger window has to be kept (C11)
                self.rep.probe("id_above_negotiated_limit");
            } else if p > limit && is_new && !self.reqs[ri].was_parked {
                // (a parked publish got its id on an earlier connection)
                let lowered = self.conns[idx].limit_eff < self.cfg.limit;
                let earlier = self.conns[..idx].iter().any(|c| c.connack_sent && c.limit_eff < self.cfg.limit);
                let feature = if lowered {
                    "receive_max_lowered"
                } else if earlier {
                    "receive_max_lowered_earlier"
                } else {
                    "plain"
                };
                self.violate(
                    format!("pkid_out_of_range:above_limit:{feature}:{}", self.ver()),
                    format!("request {key} is on the wire of connection #{idx} for the first time with packet id {p}, limit is {limit} (configured {}, receive_max lowered: {lowered})", self.cfg.limit),
                );
            }
            // id wrap probe
            if is_new && self.reqs[ri].kind == ReqKind::Pub {
                if let Some(prev) = self.last_new_pkid {
                    if p < prev {
                        self.rep.probe("pkid_wrap");
                    }
                }
                self.last_new_pkid = Some(p);
            }
        }
        // (d) flow control: the window is certainly full at the client when
        // the broker has not yet sent the final ack for `limit` publishes
        if is_new {
            let unacked = (self.conns[idx].out_pub.len() + self.conns[idx].out_rel.len())
                .saturating_sub(self.conns[idx].stray_count);
            if unacked >= limit as usize {
                self.rep.probe("window_full");
                if self.reqs[ri].from_pending {
                    self.rep.probe("pending_sent_while_window_full");
                } else {
                    let kind = match self.reqs[ri].kind {
                        ReqKind::Pub => format!("publish_q{}", self.reqs[ri].qos),
                        ReqKind::Sub => "subscribe".into(),
                        ReqKind::Unsub => "unsubscribe".into(),
                    };
                    let unregistered = self.conns[idx]
                        .out_pub
                        .values()
                        .any(|h| self.reqs[*h].was_parked);
                    self.violate(
                        format!(
                            "new_request_while_window_full:{kind}{}:{}",
                            if unregistered { ":after_collision_release" } else { "" },
                            self.ver()
                        ),
                        format!("new user request {key} reached the wire of connection #{idx} while the broker still owed the final ack for {unacked} publishes (limit {limit})"),
                    );
                }
            }
        }
    }

    // -----------------------------------------------------------------------
    // C11: wire of a connection that follows a failure
    // -----------------------------------------------------------------------

    fn carry_active(&self, idx: usize) -> bool {
        self.is(P::C11) && self.carry.as_ref().map_or(false, |c| c.conn == Some(idx))
    }

    pub fn c11_on_wire_publish(&mut self, idx: usize, ri: usize, pkid: u16, qos: u8) {
        if !self.carry_active(idx) {
            return;
        }
        let key = s(&self.reqs[ri].key);
        let epoch = self.reqs[ri].epoch;
        let ftx = self.reqs[ri].first_tx;
        let c = self.carry.as_mut().unwrap();
        match c.sp {
            Some(false) => {
                if c.all.contains(&ri) {
                    let feature = if c.collision == Some(ri) { "collision" } else { "pending" };
                    self.violate(
                        format!("no_session_sent_carried:{feature}"),
                        format!("publish {key} was carried over from the failed connection and is on the wire of connection #{idx} although its CONNACK reported no session"),
                    );
                }
            }
            Some(true) => {
                if let Some(&(_, orig)) = c.regs.iter().find(|(r, _)| *r == ri) {
                    c.seen.insert(ri);
                    if qos > 0 && orig != pkid {
                        self.violate(
                            "resume_changed:pkid".into(),
                            format!("publish {key} was carried over with packet id {orig} and is retransmitted on connection #{idx} with id {pkid}"),
                        );
                        return;
                    }
                    if c.ordered && qos == 1 {
                        if let (Some(f), Some((lf, lri))) = (ftx, c.last_ftx) {
                            if f < lf {
                                // a SUBSCRIBE / UNSUBSCRIBE that took an id out of the cycle
                                // is a cause of its own (the rotation point of
                                // MqttState::clean assumes publishes only) and comes first
                                let subs = self.reqs.iter().any(|r| r.kind != ReqKind::Pub && (r.first_tx.is_some() || r.accepted));
                                // the id of one of the two publishes was last held by a QoS 2
                                // publish: its PUBCOMP freed the id outside the PUBACK order
                                // the rotation point of MqttState::clean follows
                                let after_qos2 = |x: usize| {
                                    let (id, fx) = (self.reqs[x].wire_id, self.reqs[x].first_tx);
                                    self.reqs
                                        .iter()
                                        .enumerate()
                                        .filter(|(y, r)| *y != x && r.kind == ReqKind::Pub && id.is_some() && r.wire_id == id && r.first_tx < fx && r.first_tx.is_some())
                                        .max_by_key(|(_, r)| r.first_tx)
                                        .map_or(false, |(_, r)| r.qos == 2)
                                };
                                let feature = if subs {
                                    "ids_shared_with_subscribe"
                                } else if after_qos2(ri) || after_qos2(lri) {
                                    "id_freed_by_qos2_completion"
                                } else if c.interrupted {
                                    "failure_during_replay"
                                } else if self.conns.iter().skip(1).any(|c| c.connack_sent && !c.sp) {
                                    "single_failure:after_no_session_reconnect"
                                } else {
                                    "single_failure:publishes_only"
                                };
                                let other = s(&self.reqs[lri].key);
                                self.violate(
                                    format!("resume_order:{feature}"),
                                    format!("on resumed connection #{idx} QoS1 publish {key} (first transmitted as #{f}) is retransmitted after {other} (first transmitted as #{lf}); the broker had acknowledged in order"),
                                );
                                return;
                            }
                        }
                        if let Some(f) = ftx {
                            let c = self.carry.as_mut().unwrap();
                            c.last_ftx = Some((f, ri));
                        }
                    }
                    let c = self.carry.as_ref().unwrap();
                    if c.seen.len() == c.regs.len() && !c.regs.is_empty() {
                        self.nontrivial_marks |= 2;
                        self.rep.probe("carried_all_retransmitted");
                    }
                } else if epoch >= c.epoch_fail {
                    self.c11_post(idx, ri);
                } else if c.seen.len() < c.regs.len() {
                    self.rep.probe("channel_request_before_retransmission");
                }
            }
            None => {}
        }
    }

    pub fn c11_on_wire_other(&mut self, idx: usize, ri: usize) {
        if !self.carry_active(idx) {
            return;
        }
        let c = self.carry.as_ref().unwrap();
        if c.sp == Some(true) && self.reqs[ri].epoch >= c.epoch_fail {
            self.c11_post(idx, ri);
        }
    }

    /// A request issued after the failure is on the resumed connection's wire.
    fn c11_post(&mut self, idx: usize, ri: usize) {
        let c = self.carry.as_ref().unwrap();
        if c.seen.len() < c.regs.len() {
            let missing = c
                .regs
                .iter()
                .find(|(r, _)| !c.seen.contains(r))
                .map(|(r, _)| *r)
                .unwrap();
            let parked = self.reqs[missing].was_parked;
            let key = s(&self.reqs[ri].key);
            let mkey = s(&self.reqs[missing].key);
            self.violate(
                format!(
                    "post_request_before_retransmission{}",
                    if parked { ":carried_publish_parked" } else { "" }
                ),
                format!("request {key}, issued after the failure, is on the wire of resumed connection #{idx} before the carried-over publish {mkey} was retransmitted"),
            );
        }
    }

    pub fn c11_after_ok_poll(&mut self, snap: &Snapshot) {
        if !self.is(P::C11) {
            return;
        }
        let latest = self.conns.len().checked_sub(1);
        let Some(c) = self.carry.as_mut() else { return };
        if c.sp == Some(false) && c.conn == latest && !c.pending_checked {
            c.pending_checked = true;
            self.nontrivial_marks |= 4;
            if !snap.pending.is_empty() {
                let p = snap.pending.iter().map(|r| r.short()).collect::<Vec<_>>().join(" ");
                self.violate(
                    "no_session_pending_kept".into(),
                    format!("after a CONNACK without session `pending` still holds [{p}]"),
                );
            }
        }
    }

    /// `EventLoop::clean` ran: what the client carries into the next connection.
    pub fn build_carry(&mut self, snap: &Snapshot) {
        // the failed connection was itself a resumed one whose replay queue
        // was not empty yet (or an earlier one was: the order stays disturbed)
        let replay_unfinished = self.conns.last().map_or(false, |c| c.connack_sent && c.sp)
            && !self.last_snap.pending.is_empty();
        let interrupted = replay_unfinished
            || self.carry.as_ref().map_or(false, |c| {
                c.interrupted || (c.sp == Some(true) && c.seen.len() < c.regs.len())
            });
        if interrupted {
            self.rep.probe("failure_during_replay");
        }
        let mut regs = Vec::new();
        let mut all = BTreeSet::new();
        for r in &snap.pending {
            if let Rq::Publish {
                payload, pkid, qos, ..
            } = r
            {
                if let Some(&ri) = self.by_key.get(payload) {
                    all.insert(ri);
                    if *pkid != 0 && *qos > 0 && !regs.iter().any(|(x, _)| *x == ri) {
                        regs.push((ri, *pkid));
                    }
                }
            }
        }
        let mut collision = None;
        if let Some(Rq::Publish { payload, .. }) = &snap.collision {
            if let Some(&ri) = self.by_key.get(payload) {
                all.insert(ri);
                collision = Some(ri);
            }
        }
        let ordered = !self.cfg.v5 && self.acks_in_order;
        tr!(
            self.rep,
            "carry: regs=[{}] all={} ordered={ordered} interrupted={interrupted}",
            regs.iter().map(|(r, p)| format!("{}#{p}", s(&self.reqs[*r].key))).collect::<Vec<_>>().join(" "),
            all.len()
        );
        if !regs.is_empty() {
            self.rep.probe("carried_registered_publishes");
        }
        self.carry = Some(Carry {
            epoch_fail: self.epoch,
            regs,
            all,
            collision,
            interrupted,
            ordered,
            conn: None,
            sp: None,
            seen: BTreeSet::new(),
            last_ftx: None,
            pending_checked: false,
        });
    }

    // -----------------------------------------------------------------------
    // C02: every accepted, unacknowledged publish is held
    // -----------------------------------------------------------------------

    pub fn check_held(&mut self, snap: &Snapshot, res: &Result<Ev, PErr>) {
        // where is each publish now
        let mut now_where: Vec<Where> = vec![Where::Nowhere; self.reqs.len()];
        let mut entry: Vec<Option<&Rq>> = vec![None; self.reqs.len()];
        let mut rel_ids: BTreeSet<u16> = BTreeSet::new();
        for (list, wh) in [(&snap.pending, Where::Pending), (&snap.retrans, Where::Retrans)] {
            for r in list.iter() {
                match r {
                    Rq::Publish { payload, .. } => {
                        if let Some(&ri) = self.by_key.get(payload) {
                            if now_where[ri] == Where::Nowhere {
                                now_where[ri] = wh;
                                entry[ri] = Some(r);
                            }
                        }
                    }
                    Rq::PubRel(p) => {
                        rel_ids.insert(*p);
                    }
                    _ => {}
                }
            }
        }
        if let Some(r @ Rq::Publish { payload, .. }) = &snap.collision {
            if let Some(&ri) = self.by_key.get(payload) {
                if now_where[ri] == Where::Nowhere {
                    now_where[ri] = Where::Collision;
                    entry[ri] = Some(r);
                }
            }
        }
        // probes about collisions
        for ri in 0..self.reqs.len() {
            if now_where[ri] == Where::Collision && self.reqs[ri].last_where != Where::Collision {
                self.rep.probe("collision_created");
                self.reqs[ri].parked_mark = Some(self.inspect_mark);
                if let Some(Rq::Publish { pkid, .. }) = entry[ri] {
                    self.reqs[ri].parked_id = *pkid;
                    // acks for this id the script has sent and the client has
                    // not handled yet: the first PUBACK / PUBCOMP will release
                    // the publish, later ones may be taken as its answer
                    if let Some(latest) = self.conns.len().checked_sub(1) {
                        let from = self.processed_latest(snap).min(self.conns[latest].written.len());
                        let mut finals = 0u32;
                        let mut rec = false;
                        for w in &self.conns[latest].written[from..] {
                            match w {
                                Pk::PubAck { pkid: p, .. } | Pk::PubComp { pkid: p, .. } if p == pkid => finals += 1,
                                Pk::PubRec { pkid: p, reason } if p == pkid => {
                                    if *reason == R_FAIL {
                                        finals += 1;
                                    } else if finals >= 1 {
                                        rec = true;
                                    }
                                }
                                _ => {}
                            }
                        }
                        self.reqs[ri].pre_acks = finals;
                        // which ack ends up answering what cannot be told from
                        // outside: such a publish is exempt altogether
                        if finals >= 2 || rec {
                            self.reqs[ri].final_acked = true;
                            self.rep.probe("exempt_ambiguous_acks");
                        }
                    }
                }
            }
            if self.reqs[ri].last_where == Where::Collision
                && now_where[ri] == Where::Nowhere
                && self.reqs[ri].wired_since
            {
                // released, written, but not registered: the broker's answer to
                // it will be taken for whatever uses that id next
                let p = self.reqs[ri].parked_id;
                if let Some(c) = self.conns.last_mut() {
                    c.confused.insert(p);
                }
            }
            let r = &self.reqs[ri];
            if r.last_where == Where::Collision && now_where[ri] != Where::Collision && r.wired_since {
                match self.releasing_ack(ri, res, snap) {
                    Some(Pk::PubComp { .. }) => self.rep.probe("collision_resolved_by_pubcomp"),
                    Some(Pk::PubAck { .. }) => self.rep.probe("collision_resolved_by_puback"),
                    _ => self.rep.probe("collision_resolved_other"),
                }
            }
        }
        if self.is(P::C02) {
            let mut found: Option<(String, String, usize)> = None;
            for ri in 0..self.reqs.len() {
                let r = &self.reqs[ri];
                if r.kind != ReqKind::Pub || r.qos == 0 || !r.accepted || r.final_acked || r.released {
                    continue;
                }
                self.nontrivial_marks |= 8;
                let key = s(&r.key);
                match entry[ri] {
                    Some(Rq::Publish {
                        qos, topic, pkid, ..
                    }) => {
                        if *qos != r.qos || *topic != r.topic {
                            found = Some((
                                format!("changed_publish:content:{}", self.ver()),
                                format!("publish {key} is held with topic {topic} qos {qos}, issued with topic {} qos {}", r.topic, r.qos),
                                ri,
                            ));
                            break;
                        }
                        if let Some(w) = r.wire_id {
                            if *pkid != w {
                                found = Some((
                                    format!("changed_publish:pkid:{}", self.ver()),
                                    format!("publish {key} was on the wire with packet id {w} and is now held with id {pkid}"),
                                    ri,
                                ));
                                break;
                            }
                        }
                    }
                    _ => {
                        // a QoS2 message whose PUBREC was sent is held by its release
                        if r.rec_sent && r.wire_id.or(if r.parked_id != 0 { Some(r.parked_id) } else { None }).map_or(false, |w| rel_ids.contains(&w)) {
                            continue;
                        }
                        let other_parked = matches!(&snap.collision, Some(Rq::Publish { payload, .. }) if *payload != r.key);
                        let beyond_table = matches!(res, Err(PErr { kind: ErrKind::Unsolicited(p), .. }) if *p > self.cfg.limit);
                        let feature = if beyond_table && r.wire_id.is_none() {
                            "dropped_by_pkid_beyond_table"
                        } else if !r.seen_somewhere {
                            "dropped_by_failed_request"
                        } else if r.last_where == Where::Collision {
                            if other_parked {
                                "collision_overwritten"
                            } else if r.wired_since {
                                match self.releasing_ack(ri, res, snap) {
                                    Some(Pk::PubComp { .. }) => "collision_resolved_by_pubcomp",
                                    Some(Pk::PubAck { .. }) => "collision_resolved_by_puback",
                                    _ => "collision_released",
                                }
                            } else {
                                match self.releasing_ack(ri, res, snap) {
                                    Some(Pk::PubComp { reason, .. }) if reason != R_OK => "collision_dropped_on_pubcomp_failure_reason",
                                    Some(Pk::PubComp { .. }) => "collision_resolved_by_pubcomp",
                                    Some(Pk::PubAck { .. }) => "collision_resolved_by_puback",
                                    _ => "collision_dropped",
                                }
                            }
                        } else if r.last_where == Where::Pending {
                            if other_parked {
                                "replayed_into_collision_overwritten"
                            } else {
                                "lost_during_replay"
                            }
                        } else if r.last_where == Where::Retrans {
                            match &self.last_ack_sent {
                                Some(Pk::PubRec { reason, .. }) if *reason == R_FAIL => "inflight_dropped_on_pubrec_failure",
                                _ => "inflight_dropped",
                            }
                        } else if r.was_parked {
                            "collision_released_unregistered"
                        } else {
                            "never_registered"
                        };
                        let after = match res {
                            Ok(_) => "an Ok poll".to_string(),
                            Err(e) => format!("poll returned {:?}", e.kind),
                        };
                        found = Some((
                            format!("lost_publish:{feature}:{}", self.ver()),
                            format!(
                                "accepted QoS{} publish {key} (wire id {:?}), final ack not sent by the broker, is in none of state.clean() / pending / collision after {after}; last ack sent by the broker: {}",
                                r.qos,
                                r.wire_id,
                                self.last_ack_sent.as_ref().map_or("-".into(), |p| p.short())
                            ),
                            ri,
                        ));
                        break;
                    }
                }
            }
            if let Some((c, m, ri)) = found {
                // (reported once; matters only when triage skips the class)
                self.reqs[ri].final_acked = true;
                self.violate(c, m);
            }
        }
        for ri in 0..self.reqs.len() {
            self.reqs[ri].last_where = now_where[ri];
            self.reqs[ri].wired_since = false;
        }
        if let Some(i) = self.conns.len().checked_sub(1) {
            self.inspect_mark = (i, self.conns[i].written.len());
        }
    }

    /// The ack that released a parked publish: the first PUBACK / PUBCOMP of
    /// the parked id among the packets the client handled in the poll that
    /// just returned (its event plus the events it left queued).
    fn releasing_ack(&self, ri: usize, res: &Result<Ev, PErr>, snap: &Snapshot) -> Option<Pk> {
        let p = self.reqs[ri].parked_id;
        let first = match res {
            Ok(ev) => Some(ev),
            Err(_) => None,
        };
        for ev in first.into_iter().chain(snap.queued.iter()) {
            if let Ev::In(w) = ev {
                match w {
                    Pk::PubAck { pkid, .. } | Pk::PubComp { pkid, .. } if *pkid == p => return Some(w.clone()),
                    _ => {}
                }
            }
        }
        None
    }

    // -----------------------------------------------------------------------
    // C07: state-level window invariants
    // -----------------------------------------------------------------------

    pub fn check_window_invariants(&mut self, snap: &Snapshot, full: bool) {
        if let Some(Rq::Publish { pkid, .. }) = &snap.collision {
            // a publish got parked on this id: an ack sent earlier for it may
            // find the parked publish registered when the client reaches it
            if let Some(i) = self.conns.len().checked_sub(1) {
                self.cancel_unsol(i, *pkid, false);
                self.conns[i].stray.insert(*pkid);
            }
        }
        let cur_parked: Option<Vec<u8>> = match &snap.collision {
            Some(Rq::Publish { payload, .. }) => Some(payload.clone()),
            _ => None,
        };
        if self.is(P::C07) {
            // flow control while a collision stays parked
            if cur_parked.is_some() && cur_parked == self.parked_key {
                let offender = self
                    .new_wire
                    .iter()
                    .copied()
                    .find(|ri| !self.reqs[*ri].from_pending && Some(&self.reqs[*ri].key) != cur_parked.as_ref());
                if self.new_wire.iter().any(|ri| self.reqs[*ri].from_pending) {
                    self.rep.probe("pending_sent_while_collision");
                }
                if let Some(ri) = offender {
                    let key = s(&self.reqs[ri].key);
                    let parked = s(cur_parked.as_ref().unwrap());
                    self.violate(
                        format!("new_request_while_collision:{}", self.ver()),
                        format!("new user request {key} reached the wire while publish {parked} stayed parked on an id collision"),
                    );
                }
            }
            // (c) occupancy
            if let Some(idx) = self.conns.iter().rposition(|c| c.connack_sent) {
                let limit = self.conns[idx].limit_eff.max(1);
                if self.established && snap.inflight > limit {
                    let feature = if !snap.pending.is_empty() || !self.last_snap.pending.is_empty() || self.conns[idx].sp {
                        "during_replay"
                    } else {
                        "normal"
                    };
                    let lowered = self.conns[idx].limit_eff < self.cfg.limit;
                    self.violate(
                        format!(
                            "inflight_above_limit:{feature}{}:{}",
                            if lowered { ":receive_max_lowered" } else { "" },
                            self.ver()
                        ),
                        format!("state.inflight() = {} exceeds the limit {limit} on connection #{idx}", snap.inflight),
                    );
                }
                if snap.inflight >= limit {
                    self.rep.probe("window_full_state");
                }
            }
            // (c') the client's occupancy count cannot be below the number of
            // publishes / releases the broker has certainly not answered yet
            if self.established {
                if let Some(idx) = self.cur() {
                    let c = &self.conns[idx];
                    if c.connack_sent {
                        let definite = (c.out_pub.len() + c.out_rel.len()).saturating_sub(c.stray_count);
                        if (snap.inflight as usize) < definite {
                            let parked = c.out_pub.values().any(|h| self.reqs[*h].was_parked)
                                || self.reqs.iter().any(|r| r.was_parked && r.wire_id.map_or(false, |w| c.out_rel.contains(&w)));
                            let feature = if parked { "after_collision_release" } else { "other" };
                            let msg = format!(
                                "state.inflight() = {} although the broker has received and not yet answered {} publishes / releases on connection #{idx} (ids {:?} / {:?})",
                                snap.inflight,
                                definite,
                                c.out_pub.keys().collect::<Vec<_>>(),
                                c.out_rel.iter().collect::<Vec<_>>()
                            );
                            self.violate(format!("inflight_undercount:{feature}:{}", self.ver()), msg);
                        }
                    }
                }
            }
            // (e) a parked collision implies that the id is genuinely held
            if full {
                if let Some(Rq::Publish { pkid, payload, .. }) = &snap.collision {
                    let held = snap.retrans.iter().chain(snap.pending.iter()).any(|r| match r {
                        Rq::Publish { pkid: p, .. } => p == pkid,
                        Rq::PubRel(p) => p == pkid,
                        _ => false,
                    });
                    if !held && !self.reported_parked.contains(payload) {
                        let feature = match &self.last_ack_sent {
                            Some(Pk::PubAck { pkid: p, reason }) if p == pkid && *reason == R_FAIL => {
                                "v5_puback_failure_reason"
                            }
                            Some(Pk::PubRec { pkid: p, reason }) if p == pkid && *reason == R_FAIL => {
                                "v5_pubrec_failure_reason"
                            }
                            Some(Pk::PubComp { pkid: p, reason }) if p == pkid && *reason != R_OK => {
                                "v5_pubcomp_failure_reason"
                            }
                            _ => {
                                let nosess = self
                                    .conns
                                    .last()
                                    .map_or(false, |c| c.connack_sent && !c.sp)
                                    && self.conns.len() > 1;
                                let failed_ack = self.conns.iter().rev().take(3).any(|c| {
                                    c.written.iter().any(|w| matches!(w, Pk::PubAck { pkid: p, reason } | Pk::PubRec { pkid: p, reason } | Pk::PubComp { pkid: p, reason } if p == pkid && *reason == R_FAIL))
                                });
                                if failed_ack {
                                    "v5_failure_reason_earlier"
                                } else if nosess {
                                    "after_no_session_reconnect"
                                } else if !self.established {
                                    "after_failure"
                                } else {
                                    "other"
                                }
                            }
                        };
                        // between a failure and the next CONNACK the holder may
                        // be sitting in `pending` (then it IS held); a parked
                        // publish without holder before the next session is
                        // decided is reported only once the session is decided
                        if self.established || feature != "after_failure" {
                            self.reported_parked.insert(payload.clone());
                            self.violate(
                                format!("collision_id_not_held:{feature}:{}", self.ver()),
                                format!(
                                    "publish {} is parked in state.collision on id {pkid}, but no unacknowledged publish or release with that id is in state.clean() or pending",
                                    s(payload)
                                ),
                            );
                        }
                    }
                }
            }
        }
        self.parked_key = cur_parked;
        self.new_wire.clear();
    }

    // -----------------------------------------------------------------------
    // Events returned by poll(): C10 (and bookkeeping for the others)
    // -----------------------------------------------------------------------

    pub fn on_event(&mut self, ev: &Ev, _snap: &Snapshot) {
        if self.is(P::C10) {
            let hoisted = !self.cfg.v5 && matches!(ev, Ev::In(Pk::ConnAck { .. }));
            let (conn, tolerated) = if !hoisted && !self.leftover.is_empty() {
                let (exp, c) = self.leftover.pop_front().unwrap();
                if exp != *ev {
                    self.violate(
                        "event_queue_mismatch".into(),
                        format!("poll returned {ev:?} although {exp:?} was at the head of state.events"),
                    );
                    return;
                }
                (c, true)
            } else {
                match self.conns.len().checked_sub(1) {
                    Some(c) => (c, false),
                    None => return,
                }
            };
            self.c10_event(ev, conn, tolerated);
        }
        if !self.is(P::C10) {
            // attribution only: how many of the script's packets the client has handled
            let hoisted = !self.cfg.v5 && matches!(ev, Ev::In(Pk::ConnAck { .. }));
            let conn = if !hoisted && !self.leftover.is_empty() {
                self.leftover.pop_front().map(|(_, c)| c)
            } else {
                self.conns.len().checked_sub(1)
            };
            if let (Some(c), Ev::In(_)) = (conn, ev) {
                self.conns[c].surfaced += 1;
            }
        }
        if self.is(P::C18) {
            self.c18_on_event(ev);
        }
    }

    /// Number of packets of the latest connection the client has handled
    /// (returned or queued as Incoming events).
    pub fn processed_latest(&self, snap: &Snapshot) -> usize {
        let Some(latest) = self.conns.len().checked_sub(1) else { return 0 };
        let queued_in = snap.queued.iter().filter(|e| matches!(e, Ev::In(_))).count();
        let older = self
            .leftover
            .iter()
            .filter(|(e, c)| *c != latest && matches!(e, Ev::In(_)))
            .count();
        self.conns[latest].surfaced + queued_in.saturating_sub(older)
    }

    fn c10_event(&mut self, ev: &Ev, conn: usize, tolerated: bool) {
        match ev {
            Ev::In(pk) => {
                let j = self.conns[conn].surfaced;
                match self.conns[conn].written.get(j) {
                    Some(e) if e == pk => {}
                    Some(e) => {
                        let later = self.conns[conn].written[j..].iter().any(|x| x == pk);
                        let earlier = self.conns[conn].written[..j].iter().any(|x| x == pk);
                        let feature = if later {
                            "skipped"
                        } else if earlier {
                            "repeated_or_reordered"
                        } else {
                            "never_written"
                        };
                        let (e, p) = (e.short(), pk.short());
                        self.violate(
                            format!("incoming_mismatch:{feature}"),
                            format!("poll surfaced Incoming {p} for connection #{conn}; the next packet the broker wrote there is {e} (#{j})"),
                        );
                        return;
                    }
                    None => {
                        let p = pk.short();
                        self.violate(
                            "incoming_mismatch:beyond_written".into(),
                            format!("poll surfaced Incoming {p} for connection #{conn} although all {j} packets the broker wrote there were already surfaced"),
                        );
                        return;
                    }
                }
                if self.conns[conn].oversize_at == Some(j) {
                    let n = match pk {
                        Pk::Publish { payload, .. } => payload.len(),
                        _ => 0,
                    };
                    self.violate(
                        "oversize_frame_accepted:through_event_loop".into(),
                        format!("the broker sent a PUBLISH with a {n}-byte payload on connection #{conn}; the client's incoming limit is 10240 bytes, yet poll() surfaced the packet"),
                    );
                    return;
                }
                self.conns[conn].surfaced = j + 1;
                self.nontrivial_marks |= 16;
                if let Some(u) = self.conns[conn].first_unsol {
                    if j > u {
                        let (a, b) = (self.conns[conn].written[u].short(), pk.short());
                        self.violate(
                            format!("unsolicited_ack_not_reported:{}", kind_of(&self.conns[conn].written[u])),
                            format!("the broker sent the unsolicited {a} on connection #{conn}; the client went on and surfaced the later packet {b} instead of failing with a state error"),
                        );
                        return;
                    }
                }
                if !tolerated {
                    let manual = self.cfg.manual_acks;
                    let need: Option<(u8, u16, &str)> = match pk {
                        Pk::Publish { qos: 1, pkid, .. } if !manual => Some((4, *pkid, "puback")),
                        Pk::Publish { qos: 2, pkid, .. } if !manual => Some((5, *pkid, "pubrec")),
                        Pk::PubRel { pkid, reason }
                            if !manual && *reason == R_OK && self.conns[conn].written_known_rel[j] =>
                        {
                            Some((7, *pkid, "pubcomp"))
                        }
                        _ => None,
                    };
                    // MQTT 5: a publish that names a topic alias which this connection
                    // has not established is a protocol error, answered with a
                    // DISCONNECT and not acknowledged. The client keeps its alias
                    // table across connections, so an alias established on an earlier
                    // one may still resolve: then either answer is accepted.
                    let alias_class = match pk {
                        Pk::Publish { topic, alias: Some(a), .. } if topic.is_empty() => {
                            let sets = |w: &Pk| matches!(w, Pk::Publish { topic: t, alias: Some(b), .. } if !t.is_empty() && b == a);
                            if self.conns[conn].written[..j].iter().any(sets) {
                                0
                            } else if self.conns[..conn].iter().any(|c| c.written.iter().any(sets)) {
                                1
                            } else {
                                2
                            }
                        }
                        _ => 0,
                    };
                    let need = if alias_class == 0 { need } else { None };
                    if alias_class == 1 {
                        self.rep.probe("alias_of_earlier_connection");
                    }
                    if alias_class == 2 {
                        if self.conns[conn].client_disconnects == 0 {
                            let p = pk.short();
                            self.violate(
                                "missing_disconnect:unknown_topic_alias".into(),
                                format!("{p} names a topic alias no connection has established; it was surfaced by a poll that returned Ok on connection #{conn} and no DISCONNECT reached the wire"),
                            );
                            return;
                        }
                        self.rep.probe("unknown_alias_answered_with_disconnect");
                    }
                    if let Some((code, pkid, name)) = need {
                        let c = &mut self.conns[conn];
                        let n = {
                            let e = c.acks_need.entry((code, pkid)).or_insert(0);
                            *e += 1;
                            *e
                        };
                        let seen = c.acks_seen.get(&(code, pkid)).copied().unwrap_or(0);
                        if seen < n {
                            let p = pk.short();
                            self.violate(
                                format!("missing_ack:{name}"),
                                format!("{p} was surfaced by a poll that returned Ok on connection #{conn}, but only {seen} {name}({pkid}) reached the wire ({n} owed)"),
                            );
                            return;
                        }
                        self.rep.probe("inbound_flow_answered");
                    }
                }
                if self.cfg.manual_acks {
                    if let Pk::Publish { qos, .. } = pk {
                        if *qos > 0 && self.received_pubs.len() < 64 {
                            self.received_pubs.push(pk.clone());
                        }
                    }
                }
            }
            Ev::Out(o) => {
                let Some(code) = out_code2(o) else { return };
                let front = self.conns[conn].wq.front().copied();
                if front == Some(code) {
                    self.conns[conn].wq.pop_front();
                    self.rep.probe("announcement_matched");
                } else if tolerated {
                    self.rep.probe("announcement_of_failed_poll_without_write");
                } else {
                    let later = self.conns[conn].wq.iter().any(|w| *w == code);
                    match front {
                        Some(f) if later => self.violate(
                            format!("written_not_announced:{}", code_name2(f.0)),
                            format!("poll returned Ok(Outgoing {o:?}) on connection #{conn}, but {}({}) was written before that packet and has not been announced", code_name2(f.0), f.1),
                        ),
                        _ => {
                            let feature = if self.cfg.v5 { ":v5" } else { ":v4" };
                            self.violate(
                                format!("announced_not_written:{}{feature}", code_name2(code.0)),
                                format!("poll returned Ok(Outgoing {o:?}) on connection #{conn}, but no such packet reached the wire"),
                            )
                        }
                    }
                }
            }
        }
    }

    pub fn on_err(&mut self, e: &PErr, clean_happened: bool, snap: &Snapshot) {
        if self.is(P::C10) {
            // the queue at the time of the error: old leftovers keep their
            // attribution, what the failed poll pushed belongs to the latest
            // connection
            let prefix = self.leftover.len();
            if snap.queued.len() < prefix
                || snap.queued[..prefix]
                    .iter()
                    .zip(self.leftover.iter())
                    .any(|(a, (b, _))| a != b)
            {
                self.violate(
                    "event_queue_mismatch".into(),
                    "state.events lost or reordered events that were queued at an earlier error".into(),
                );
                return;
            }
            let latest = self.conns.len().saturating_sub(1);
            let suffix: Vec<Ev> = snap.queued[prefix..].to_vec();
            let n_in = suffix.iter().filter(|e| matches!(e, Ev::In(_))).count();
            if clean_happened && !self.conns.is_empty() {
                let c = &self.conns[latest];
                let processed = c.surfaced + n_in
                    + self.leftover.iter().filter(|(e, cc)| *cc == latest && matches!(e, Ev::In(_))).count();
                // a state error that names an id was raised by the packet handled last, and
                // every handled packet is pushed as an Incoming event before it is dispatched:
                // the last packet accounted for (surfaced or queued) must carry that id. If it
                // does not while a later packet of the stream does, events of handled packets
                // are missing
                if let ErrKind::Unsolicited(id) = e.kind.clone() {
                    let same_id = |w: &Pk| {
                        matches!(w, Pk::PubAck { pkid, .. } | Pk::PubRec { pkid, .. } | Pk::PubComp { pkid, .. } | Pk::PubRel { pkid, .. } if *pkid == id)
                    };
                    let last_ok = processed > 0 && processed <= c.written.len() && same_id(&c.written[processed - 1]);
                    if !last_ok {
                        if let Some(off) = c.written[processed.min(c.written.len())..].iter().position(same_id) {
                            let u = processed + off;
                            let a = c.written[u].short();
                            self.violate(
                                "processed_packets_not_surfaced:before_unsolicited_ack".into(),
                                format!("connection #{latest} failed with Unsolicited({id}); the first packet of the broker's stream that can have caused it is {a} (#{u}), but only {processed} of the {} packets up to it were surfaced or are queued as Incoming events", u + 1),
                            );
                            return;
                        }
                    }
                }
                if let Some(u) = c.first_unsol {
                    if processed == u + 1 {
                        self.rep.probe("unsolicited_ack_reported");
                        if !e.kind.is_state() {
                            let a = c.written[u].short();
                            self.violate(
                                format!("unsolicited_ack_wrong_error:{}", kind_of(&c.written[u])),
                                format!("the unsolicited {a} ended connection #{latest} with {:?} instead of a state error", e.kind),
                            );
                            return;
                        }
                        // the packet that caused the error is itself surfaced
                        let last_in = suffix.iter().rev().find_map(|e| match e {
                            Ev::In(p) => Some(p.clone()),
                            _ => None,
                        });
                        if last_in.as_ref() != Some(&c.written[u]) {
                            let a = c.written[u].short();
                            self.violate(
                                "err_packet_not_surfaced".into(),
                                format!("the unsolicited {a} caused the error on connection #{latest} but is not queued as an Incoming event"),
                            );
                            return;
                        }
                        if let ErrKind::Unsolicited(_) = e.kind {
                            let held = snap
                                .retrans
                                .iter()
                                .filter(|r| matches!(r, Rq::Publish { .. } | Rq::PubRel(_)))
                                .count();
                            if snap.inflight as usize != held {
                                self.violate(
                                    "bookkeeping_inflight_mismatch:after_unsolicited_ack".into(),
                                    format!("after the unsolicited-ack error inflight() = {} but state.clean() holds {held} publishes/releases", snap.inflight),
                                );
                                return;
                            }
                        }
                    } else if processed > u + 1 {
                        let a = c.written[u].short();
                        self.violate(
                            format!("unsolicited_ack_not_reported:{}", kind_of(&c.written[u])),
                            format!("the broker sent the unsolicited {a} on connection #{latest}; the client processed {} later packet(s) before failing with {:?}", processed - u - 1, e.kind),
                        );
                        return;
                    }
                }
            }
            for ev in suffix {
                self.leftover.push_back((ev, latest));
            }
        }
        if !self.is(P::C10) {
            let prefix = self.leftover.len().min(snap.queued.len());
            let latest = self.conns.len().saturating_sub(1);
            for ev in snap.queued[prefix..].iter() {
                self.leftover.push_back((ev.clone(), latest));
            }
        }
        if self.is(P::C18) {
            self.c18_on_err(e);
        }
    }

    pub fn c10_finish(&mut self, snap: &Snapshot) {
        // events still queued count as surfaced
        let prefix = self.leftover.len().min(snap.queued.len());
        let latest = self.conns.len().saturating_sub(1);
        let queued = snap.queued.clone();
        for (i, ev) in queued.iter().enumerate() {
            if self.viol.is_some() {
                return;
            }
            if i < prefix {
                let (exp, c) = self.leftover[i].clone();
                if exp != *ev {
                    self.violate(
                        "event_queue_mismatch".into(),
                        format!("{ev:?} queued where {exp:?} was expected"),
                    );
                    return;
                }
                self.c10_event(ev, c, true);
            } else if !self.conns.is_empty() {
                self.c10_event(ev, latest, false);
            }
        }
        for c in 0..self.conns.len() {
            if let Some(f) = self.conns[c].wq.front().copied() {
                // a connection that ended by an error: what its failed poll
                // wrote is covered by the tolerated announcements above
                self.violate(
                    format!("written_not_announced:{}", code_name2(f.0)),
                    format!("{}({}) reached the wire of connection #{c} but no Outgoing event announced it", code_name2(f.0), f.1),
                );
                return;
            }
        }
    }
}

fn kind_of(p: &Pk) -> &'static str {
    match p {
        Pk::PubAck { .. } => "puback",
        Pk::PubRec { .. } => "pubrec",
        Pk::PubRel { .. } => "pubrel",
        Pk::PubComp { .. } => "pubcomp",
        _ => "other",
    }
}

fn out_code2(o: &rumqttc::Outgoing) -> Option<(u8, u16)> {
    use rumqttc::Outgoing as O;
    Some(match o {
        O::Publish(p) => (3, *p),
        O::PubAck(p) => (4, *p),
        O::PubRec(p) => (5, *p),
        O::PubRel(p) => (6, *p),
        O::PubComp(p) => (7, *p),
        O::Subscribe(p) => (8, *p),
        O::Unsubscribe(p) => (10, *p),
        O::PingReq => (12, 0),
        O::PingResp => (13, 0),
        O::Disconnect => (14, 0),
        O::AwaitAck(_) => return None,
    })
}

fn code_name2(c: u8) -> &'static str {
    match c {
        3 => "publish",
        4 => "puback",
        5 => "pubrec",
        6 => "pubrel",
        7 => "pubcomp",
        8 => "subscribe",
        10 => "unsubscribe",
        12 => "pingreq",
        13 => "pingresp",
        14 => "disconnect",
        _ => "other",
    }
}
