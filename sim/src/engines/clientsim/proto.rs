//! Version-neutral packet model used by the script and the oracles, and the
//! conversions from/to the real rumqttc v4 / v5 packet types. Encoding and
//! decoding on the script side use rumqttc's own codecs of the same version
//! (`Packet::read` / `Packet::write`).

use bytes::{Bytes, BytesMut};
use rumqttc::mqttbytes::v4 as p4;
use rumqttc::mqttbytes::QoS as Q4;
use rumqttc::v5::mqttbytes::v5 as p5;
use rumqttc::v5::mqttbytes::QoS as Q5;

/// Neutral reason of an ack: 0 success, 1 "no matching subscribers"
/// (success class), 2 failure (>= 0x80).
pub const R_OK: u8 = 0;
pub const R_NOMATCH: u8 = 1;
pub const R_FAIL: u8 = 2;

#[derive(Clone, Debug, PartialEq, Eq)]
pub enum Pk {
    Connect {
        clean: bool,
        keep_alive: u16,
    },
    ConnAck {
        sp: bool,
        code: u8,
        recv_max: Option<u16>,
        alias_max: Option<u16>,
        /// MQTT 5 server keep-alive.
        ska: Option<u16>,
    },
    Publish {
        dup: bool,
        qos: u8,
        retain: bool,
        topic: String,
        pkid: u16,
        payload: Vec<u8>,
        alias: Option<u16>,
    },
    PubAck {
        pkid: u16,
        reason: u8,
    },
    PubRec {
        pkid: u16,
        reason: u8,
    },
    PubRel {
        pkid: u16,
        reason: u8,
    },
    PubComp {
        pkid: u16,
        reason: u8,
    },
    Subscribe {
        pkid: u16,
        filters: Vec<(String, u8)>,
    },
    SubAck {
        pkid: u16,
        n: usize,
    },
    Unsubscribe {
        pkid: u16,
        topics: Vec<String>,
    },
    UnsubAck {
        pkid: u16,
    },
    PingReq,
    PingResp,
    Disconnect {
        reason: u8,
    },
    /// Something the neutral model has no use for (v5 AUTH).
    Other,
}

impl Pk {
    pub fn short(&self) -> String {
        match self {
            Pk::Connect { clean, keep_alive } => format!("CONNECT(clean={clean},ka={keep_alive})"),
            Pk::ConnAck {
                sp,
                code,
                recv_max,
                alias_max,
                ska,
            } => format!(
                "CONNACK(sp={},code={code},rm={recv_max:?},am={alias_max:?}{})",
                *sp as u8,
                ska.map_or(String::new(), |k| format!(",server_keep_alive={k}"))
            ),
            Pk::Publish {
                dup,
                qos,
                topic,
                pkid,
                payload,
                alias,
                ..
            } => format!(
                "PUBLISH(q{qos},id={pkid},t={topic},p={}{}{})",
                String::from_utf8_lossy(payload),
                if *dup { ",dup" } else { "" },
                match alias {
                    Some(a) => format!(",alias={a}"),
                    None => String::new(),
                }
            ),
            Pk::PubAck { pkid, reason } => format!("PUBACK({pkid},r{reason})"),
            Pk::PubRec { pkid, reason } => format!("PUBREC({pkid},r{reason})"),
            Pk::PubRel { pkid, reason } => format!("PUBREL({pkid},r{reason})"),
            Pk::PubComp { pkid, reason } => format!("PUBCOMP({pkid},r{reason})"),
            Pk::Subscribe { pkid, filters } => format!("SUBSCRIBE({pkid},{})", filters.len()),
            Pk::SubAck { pkid, n } => format!("SUBACK({pkid},{n})"),
            Pk::Unsubscribe { pkid, topics } => format!("UNSUBSCRIBE({pkid},{})", topics.len()),
            Pk::UnsubAck { pkid } => format!("UNSUBACK({pkid})"),
            Pk::PingReq => "PINGREQ".into(),
            Pk::PingResp => "PINGRESP".into(),
            Pk::Disconnect { reason } => format!("DISCONNECT(r{reason})"),
            Pk::Other => "OTHER".into(),
        }
    }
}

fn q4(q: Q4) -> u8 {
    match q {
        Q4::AtMostOnce => 0,
        Q4::AtLeastOnce => 1,
        Q4::ExactlyOnce => 2,
    }
}

pub fn to_q4(q: u8) -> Q4 {
    match q {
        0 => Q4::AtMostOnce,
        1 => Q4::AtLeastOnce,
        _ => Q4::ExactlyOnce,
    }
}

fn q5(q: Q5) -> u8 {
    match q {
        Q5::AtMostOnce => 0,
        Q5::AtLeastOnce => 1,
        Q5::ExactlyOnce => 2,
    }
}

pub fn to_q5(q: u8) -> Q5 {
    match q {
        0 => Q5::AtMostOnce,
        1 => Q5::AtLeastOnce,
        _ => Q5::ExactlyOnce,
    }
}

// ---------------------------------------------------------------------------
// v4
// ---------------------------------------------------------------------------

pub fn from_v4(p: &p4::Packet) -> Pk {
    match p {
        p4::Packet::Connect(c) => Pk::Connect {
            clean: c.clean_session,
            keep_alive: c.keep_alive,
        },
        p4::Packet::ConnAck(c) => Pk::ConnAck {
            sp: c.session_present,
            code: if c.code == p4::ConnectReturnCode::Success { 0 } else { 1 },
            recv_max: None,
            alias_max: None,
            ska: None,
        },
        p4::Packet::Publish(p) => from_v4_publish(p),
        p4::Packet::PubAck(a) => Pk::PubAck { pkid: a.pkid, reason: 0 },
        p4::Packet::PubRec(a) => Pk::PubRec { pkid: a.pkid, reason: 0 },
        p4::Packet::PubRel(a) => Pk::PubRel { pkid: a.pkid, reason: 0 },
        p4::Packet::PubComp(a) => Pk::PubComp { pkid: a.pkid, reason: 0 },
        p4::Packet::Subscribe(s) => Pk::Subscribe {
            pkid: s.pkid,
            filters: s.filters.iter().map(|f| (f.path.clone(), q4(f.qos))).collect(),
        },
        p4::Packet::SubAck(s) => Pk::SubAck {
            pkid: s.pkid,
            n: s.return_codes.len(),
        },
        p4::Packet::Unsubscribe(u) => Pk::Unsubscribe {
            pkid: u.pkid,
            topics: u.topics.clone(),
        },
        p4::Packet::UnsubAck(u) => Pk::UnsubAck { pkid: u.pkid },
        p4::Packet::PingReq => Pk::PingReq,
        p4::Packet::PingResp => Pk::PingResp,
        p4::Packet::Disconnect => Pk::Disconnect { reason: 0 },
    }
}

pub fn from_v4_publish(p: &p4::Publish) -> Pk {
    Pk::Publish {
        dup: p.dup,
        qos: q4(p.qos),
        retain: p.retain,
        topic: p.topic.clone(),
        pkid: p.pkid,
        payload: p.payload.to_vec(),
        alias: None,
    }
}

pub fn to_v4(p: &Pk) -> Option<p4::Packet> {
    Some(match p {
        Pk::ConnAck { sp, code, .. } => p4::Packet::ConnAck(p4::ConnAck {
            session_present: *sp,
            code: if *code == 0 {
                p4::ConnectReturnCode::Success
            } else {
                p4::ConnectReturnCode::NotAuthorized
            },
        }),
        Pk::Publish {
            dup,
            qos,
            retain,
            topic,
            pkid,
            payload,
            ..
        } => {
            let mut x = p4::Publish::new(topic.clone(), to_q4(*qos), payload.clone());
            x.dup = *dup;
            x.retain = *retain;
            x.pkid = *pkid;
            p4::Packet::Publish(x)
        }
        Pk::PubAck { pkid, .. } => p4::Packet::PubAck(p4::PubAck { pkid: *pkid }),
        Pk::PubRec { pkid, .. } => p4::Packet::PubRec(p4::PubRec { pkid: *pkid }),
        Pk::PubRel { pkid, .. } => p4::Packet::PubRel(p4::PubRel { pkid: *pkid }),
        Pk::PubComp { pkid, .. } => p4::Packet::PubComp(p4::PubComp { pkid: *pkid }),
        Pk::SubAck { pkid, n } => p4::Packet::SubAck(p4::SubAck {
            pkid: *pkid,
            return_codes: vec![p4::SubscribeReasonCode::Success(Q4::AtMostOnce); (*n).max(1)],
        }),
        Pk::UnsubAck { pkid } => p4::Packet::UnsubAck(p4::UnsubAck { pkid: *pkid }),
        Pk::PingResp => p4::Packet::PingResp,
        Pk::PingReq => p4::Packet::PingReq,
        Pk::Disconnect { .. } => p4::Packet::Disconnect,
        _ => return None,
    })
}

// ---------------------------------------------------------------------------
// v5
// ---------------------------------------------------------------------------

fn r_puback(r: p5::PubAckReason) -> u8 {
    match r {
        p5::PubAckReason::Success => R_OK,
        p5::PubAckReason::NoMatchingSubscribers => R_NOMATCH,
        _ => R_FAIL,
    }
}

fn r_pubrec(r: p5::PubRecReason) -> u8 {
    match r {
        p5::PubRecReason::Success => R_OK,
        p5::PubRecReason::NoMatchingSubscribers => R_NOMATCH,
        _ => R_FAIL,
    }
}

pub fn from_v5(p: &p5::Packet) -> Pk {
    match p {
        p5::Packet::Connect(c, _, _) => Pk::Connect {
            clean: c.clean_start,
            keep_alive: c.keep_alive,
        },
        p5::Packet::ConnAck(c) => Pk::ConnAck {
            sp: c.session_present,
            code: if c.code == p5::ConnectReturnCode::Success { 0 } else { 1 },
            recv_max: c.properties.as_ref().and_then(|p| p.receive_max),
            alias_max: c.properties.as_ref().and_then(|p| p.topic_alias_max),
            ska: c.properties.as_ref().and_then(|p| p.server_keep_alive),
        },
        p5::Packet::Publish(p) => from_v5_publish(p),
        p5::Packet::PubAck(a) => Pk::PubAck {
            pkid: a.pkid,
            reason: r_puback(a.reason),
        },
        p5::Packet::PubRec(a) => Pk::PubRec {
            pkid: a.pkid,
            reason: r_pubrec(a.reason),
        },
        p5::Packet::PubRel(a) => Pk::PubRel {
            pkid: a.pkid,
            reason: if a.reason == p5::PubRelReason::Success { R_OK } else { R_FAIL },
        },
        p5::Packet::PubComp(a) => Pk::PubComp {
            pkid: a.pkid,
            reason: if a.reason == p5::PubCompReason::Success { R_OK } else { R_FAIL },
        },
        p5::Packet::Subscribe(s) => Pk::Subscribe {
            pkid: s.pkid,
            filters: s.filters.iter().map(|f| (f.path.clone(), q5(f.qos))).collect(),
        },
        p5::Packet::SubAck(s) => Pk::SubAck {
            pkid: s.pkid,
            n: s.return_codes.len(),
        },
        p5::Packet::Unsubscribe(u) => Pk::Unsubscribe {
            pkid: u.pkid,
            topics: u.filters.clone(),
        },
        p5::Packet::UnsubAck(u) => Pk::UnsubAck { pkid: u.pkid },
        p5::Packet::PingReq(_) => Pk::PingReq,
        p5::Packet::PingResp(_) => Pk::PingResp,
        p5::Packet::Disconnect(d) => Pk::Disconnect {
            reason: if d.reason_code == p5::DisconnectReasonCode::NormalDisconnection {
                0
            } else {
                // (the script only ever sends ServerShuttingDown, written as 1)
                1
            },
        },
        p5::Packet::Auth(_) => Pk::Other,
    }
}

pub fn from_v5_publish(p: &p5::Publish) -> Pk {
    Pk::Publish {
        dup: p.dup,
        qos: q5(p.qos),
        retain: p.retain,
        topic: String::from_utf8_lossy(&p.topic).into_owned(),
        pkid: p.pkid,
        payload: p.payload.to_vec(),
        alias: p.properties.as_ref().and_then(|x| x.topic_alias),
    }
}

pub fn to_v5(p: &Pk) -> Option<p5::Packet> {
    Some(match p {
        Pk::ConnAck {
            sp,
            code,
            recv_max,
            alias_max,
            ska,
        } => {
            let props = if recv_max.is_some() || alias_max.is_some() || ska.is_some() {
                Some(p5::ConnAckProperties {
                    session_expiry_interval: None,
                    receive_max: *recv_max,
                    max_qos: None,
                    retain_available: None,
                    max_packet_size: None,
                    assigned_client_identifier: None,
                    topic_alias_max: *alias_max,
                    reason_string: None,
                    user_properties: Vec::new(),
                    wildcard_subscription_available: None,
                    subscription_identifiers_available: None,
                    shared_subscription_available: None,
                    server_keep_alive: *ska,
                    response_information: None,
                    server_reference: None,
                    authentication_method: None,
                    authentication_data: None,
                })
            } else {
                None
            };
            p5::Packet::ConnAck(p5::ConnAck {
                session_present: *sp,
                code: if *code == 0 {
                    p5::ConnectReturnCode::Success
                } else {
                    p5::ConnectReturnCode::NotAuthorized
                },
                properties: props,
            })
        }
        Pk::Publish {
            dup,
            qos,
            retain,
            topic,
            pkid,
            payload,
            alias,
        } => {
            let props = alias.map(|a| p5::PublishProperties {
                payload_format_indicator: None,
                message_expiry_interval: None,
                topic_alias: Some(a),
                response_topic: None,
                correlation_data: None,
                user_properties: Vec::new(),
                subscription_identifiers: Vec::new(),
                content_type: None,
            });
            let mut x = p5::Publish::new(topic.clone(), to_q5(*qos), payload.clone(), props);
            x.dup = *dup;
            x.retain = *retain;
            x.pkid = *pkid;
            p5::Packet::Publish(x)
        }
        Pk::PubAck { pkid, reason } => {
            let mut a = p5::PubAck::new(*pkid, None);
            a.reason = match *reason {
                R_OK => p5::PubAckReason::Success,
                R_NOMATCH => p5::PubAckReason::NoMatchingSubscribers,
                _ => p5::PubAckReason::UnspecifiedError,
            };
            p5::Packet::PubAck(a)
        }
        Pk::PubRec { pkid, reason } => {
            let mut a = p5::PubRec::new(*pkid, None);
            a.reason = match *reason {
                R_OK => p5::PubRecReason::Success,
                R_NOMATCH => p5::PubRecReason::NoMatchingSubscribers,
                _ => p5::PubRecReason::UnspecifiedError,
            };
            p5::Packet::PubRec(a)
        }
        Pk::PubRel { pkid, reason } => {
            let mut a = p5::PubRel::new(*pkid, None);
            a.reason = if *reason == R_OK {
                p5::PubRelReason::Success
            } else {
                p5::PubRelReason::PacketIdentifierNotFound
            };
            p5::Packet::PubRel(a)
        }
        Pk::PubComp { pkid, reason } => {
            let mut a = p5::PubComp::new(*pkid, None);
            a.reason = if *reason == R_OK {
                p5::PubCompReason::Success
            } else {
                p5::PubCompReason::PacketIdentifierNotFound
            };
            p5::Packet::PubComp(a)
        }
        Pk::SubAck { pkid, n } => p5::Packet::SubAck(p5::SubAck {
            pkid: *pkid,
            return_codes: vec![p5::SubscribeReasonCode::Success(Q5::AtMostOnce); (*n).max(1)],
            properties: None,
        }),
        Pk::UnsubAck { pkid } => p5::Packet::UnsubAck(p5::UnsubAck {
            pkid: *pkid,
            reasons: vec![p5::UnsubAckReason::Success],
            properties: None,
        }),
        Pk::PingResp => p5::Packet::PingResp(p5::PingResp),
        Pk::PingReq => p5::Packet::PingReq(p5::PingReq),
        Pk::Disconnect { reason } => p5::Packet::Disconnect(p5::Disconnect::new(if *reason == 0 {
            p5::DisconnectReasonCode::NormalDisconnection
        } else {
            p5::DisconnectReasonCode::ServerShuttingDown
        })),
        _ => return None,
    })
}

// ---------------------------------------------------------------------------
// Script-side codec
// ---------------------------------------------------------------------------

pub fn encode(v5: bool, p: &Pk, out: &mut Vec<u8>) -> bool {
    let mut buf = BytesMut::with_capacity(64);
    let ok = if v5 {
        match to_v5(p) {
            Some(x) => x.write(&mut buf, None).is_ok(),
            None => false,
        }
    } else {
        match to_v4(p) {
            Some(x) => x.write(&mut buf, usize::MAX).is_ok(),
            None => false,
        }
    };
    if ok {
        out.extend_from_slice(&buf);
    }
    ok
}

pub enum Decoded {
    Packet(Pk, usize),
    NeedMore,
    Malformed(String),
}

/// Decodes one packet from the front of `buf` (which is left untouched; the
/// caller drops the consumed length).
pub fn decode(v5: bool, buf: &[u8]) -> Decoded {
    if buf.is_empty() {
        return Decoded::NeedMore;
    }
    let mut b = BytesMut::from(buf);
    let before = b.len();
    if v5 {
        match p5::Packet::read(&mut b, None) {
            Ok(p) => Decoded::Packet(from_v5(&p), before - b.len()),
            Err(rumqttc::v5::mqttbytes::Error::InsufficientBytes(_)) => Decoded::NeedMore,
            Err(e) => Decoded::Malformed(format!("{e:?}")),
        }
    } else {
        match p4::Packet::read(&mut b, usize::MAX) {
            Ok(p) => Decoded::Packet(from_v4(&p), before - b.len()),
            Err(rumqttc::mqttbytes::Error::InsufficientBytes(_)) => Decoded::NeedMore,
            Err(e) => Decoded::Malformed(format!("{e:?}")),
        }
    }
}

#[allow(dead_code)]
pub fn bytes_of(v: &[u8]) -> Bytes {
    Bytes::copy_from_slice(v)
}
