pub mod logsim;
