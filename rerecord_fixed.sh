#!/bin/bash
# For every `fixed:` line of KNOWN_FINDINGS.txt: revert that commit (or '+'-joined commits) alone on
# top of /repo HEAD in a scratch worktree, rebuild the simulator against it, run the quick check of
# the property named in the line, and - if it reports a violation - store the replay under the first
# replays/fixed/<name>.json the line mentions. Shows that each repair is still individually needed
# and keeps the regression material in step with the harness. /repo itself is not touched.
set -u
WT=/tmp/wt/rev
SIM=/tmp/revsim
OUT="${1:-/tmp/rerecord_fixed.log}"
export CARGO_NET_OFFLINE=true
: > "$OUT"
mkdir -p /tmp/wt /tmp/rev_replays
cd /repo
HEAD=$(git rev-parse HEAD)
[ -d $WT ] || git worktree add -f --detach $WT HEAD -q
rsync -a --delete --exclude target /verif/sim/ $SIM/
sed -i "s#/repo/rumqtt#$WT/rumqtt#" $SIM/Cargo.toml
grep "^fixed:" /verif/KNOWN_FINDINGS.txt | while read -r _ prop commits rest; do
  p=${prop#property=}
  name=$(echo "$rest" | grep -o "replays/fixed/[A-Za-z0-9_.-]*\.json" | head -1)
  git -C $WT checkout -q --detach $HEAD; git -C $WT reset -q --hard $HEAD
  ok=1
  for c in $(echo $commits | tr '+' ' ' | tac -s' '); do
    git -C $WT revert --no-commit $c >/dev/null 2>&1 || ok=0
  done
  if [ $ok = 0 ]; then echo "$commits $p REVERT-CONFLICT (later commits build on it)" | tee -a "$OUT"; git -C $WT revert --abort 2>/dev/null; git -C $WT reset -q --hard $HEAD; continue; fi
  ( cd $SIM && cargo build --release --offline 2>&1 | grep -E "^error" -A5 | head -10 )
  rm -rf /tmp/rev_replays/cur; mkdir -p /tmp/rev_replays/cur
  res=$( cd $SIM && VERIF_REPLAY_DIR=/tmp/rev_replays/cur VERIF_EVIDENCE_DIR=/tmp/rev_ev timeout 900 ./target/release/verifsim run $p quick 2>&1 | grep -E "^violation" | head -1 | cut -c1-200 )
  f=$(ls /tmp/rev_replays/cur/*.json 2>/dev/null | head -1)
  if [ -n "$f" ] && [ -n "$name" ]; then cp "$f" "/verif/$name"; echo "$commits $p RE-RECORDED $name :: $res" | tee -a "$OUT";
  elif [ -n "$f" ]; then echo "$commits $p violation but no replay name in the line :: $res" | tee -a "$OUT";
  else echo "$commits $p NO-VIOLATION-WITH-THE-COMMIT-REVERTED" | tee -a "$OUT"; fi
done
git -C $WT reset -q --hard $HEAD
git -C /repo worktree remove --force $WT
echo DONE | tee -a "$OUT"
