#!/usr/bin/env python3
"""Regenerates MANIFEST.json from the table below (kept next to DESIGN.md section 0)."""
import json, subprocess

ROUTER_NOTE = "Trusted: the reference broker model (spec.rs: acceptance-order log, per-subscription expected streams, MQTT matcher), the argument that single-threaded interleaving at buffer/channel granularity covers the threaded broker (DESIGN.md 1.1), release semantics (debug assertions off). The per-connection task is a link actor, not remote() itself (netsim runs the real one)."
CLIENT_NOTE = "Trusted: the scripted broker and its model of which ack answers which publish (ambiguous histories - an id shared by two flows, acks sent before the publish they end up answering - are exempted and counted by probes, not judged), the in-memory transport (rumqttc::verif connector seam), tokio current-thread runtime with paused clock and seeded RNG. TLS/websocket/proxy transports and the synchronous Client wrapper are not exercised."
CLAIMED = {
 # id: (engine, level, design_ref, text, note, technique)
 "C01": ("routersim", "exploration", "DESIGN.md 5.1, 6/C01",
   "Seeded search over client histories x router/link schedules x router configurations with the real Router::run_inner; every Forward drained by a client is attributed (subset construction over possible assignments) to the next expected element of one of its subscriptions in a reference model fed with the observed acceptance order; completeness checked at forced quiescence points; retention gaps excused only against the broker's own log head. In small-retention runs the router also carries a custom_segment override for a/# and every snapshot judges the number of segments each literal filter log holds: at most the configured number, nothing discarded below it (C13's retention clause seen at the router, reported under the running property). Sampling, not proof.",
   ROUTER_NOTE, "deterministic simulation with seeded scheduler + reference model"),
 "C03": ("routersim", "exploration", "DESIGN.md 5.1, 6/C03",
   "Seeded search over histories with takeover, stale events, persistent sessions, shared groups, unknown-filter/multi-filter unsubscribes, wills; every router step under catch_unwind, no step may return an error, well-behaved connections may not be closed; a run that does not return (router blocked or spinning inside a step) is reported by a monitor thread as halt:run_does_not_return with a seed-only replay file. Sampling, not proof.",
   ROUTER_NOTE, "deterministic simulation with fault injection (stale events, drops, takeover), panic oracle"),
 "C06": ("routersim", "exploration", "DESIGN.md 5.1, 6/C06",
   "Every DeviceAck drained from a connection is compared with a per-connection ledger of replies owed in request order (PUBACK/PUBREC/PUBCOMP/SUBACK codes/UNSUBACK/PINGRESP, PUBRELs separately), under seeded schedules that put requests into every pause state. Sampling, not proof.",
   ROUTER_NOTE, "deterministic simulation with seeded scheduler + request/ack ledger"),
 "C09": ("routersim", "exploration", "DESIGN.md 5.1, 6/C09",
   "Window invariants (<=100 awaiting ack, non-zero unique ids) checked on every forward from the client's side under backlogs up to several hundred messages and all ack pacings; no-lost-wakeup: at quiescence (acks and drains only, no new stimulus) the whole backlog has been delivered. Retained replays (which take window slots) in a third of the runs; in another third one or two further clients misbehave (unsolicited acks and the rest of the rogue alphabet) and must be the only ones closed. The window invariants are also checked in C17 runs (shared subscriptions). Sampling, not proof.",
   ROUTER_NOTE, "deterministic simulation with seeded scheduler, invariants + bounded liveness at quiescence"),
 "C05": ("streamsim+clientsim", "exploration", "DESIGN.md 5.4, 6/C05, 12.5",
   "Seeded search over byte streams (valid frames from both crates' encoders, mutations, random bytes, fixed-header boundary cases) x chunking / Pending / EOF schedules over an in-memory AsyncRead for the four decoders; the stream wrapper (Framed, Network::read+readv) must yield exactly what repeated one-shot decoding of the delivered prefix yields, with independent fixed-header parsing for the consumed-length, oversize and needs-more rules. One run in 64 takes the oversize clause through the whole rumqttc client (clientsim): the scripted broker sends one frame above the client's incoming limit, which poll() must never surface, whatever limits the CONNACK carried. Sampling, not proof.",
   "Trusted: the harness's own fixed-header parser and in-memory transport; tokio current-thread runtime with paused clock.",
   "deterministic simulation of the transport seam (chunking, Pending, EOF) + differential oracle"),
 "C08": ("routersim", "fault_enumeration", "DESIGN.md 5.1, 6/C08",
   "For every seeded history the persistent subscriber's connection is ended at EVERY scheduler step index in each of four ways (DISCONNECT, link failure, router close after protocol error, takeover) and the run re-executed; the session model (subscriptions, per-subscription position rewound to the oldest forward the broker has no ack for, incl. forwards left in the dead buffer) judges CONNACK.session_present and the resumed stream; completeness at quiescence.",
   ROUTER_NOTE, "deterministic simulation, crash points enumerated per seeded history"),
 "C14": ("routersim", "exploration", "DESIGN.md 5.1, 6/C14",
   "A well-behaved pair plus 1-4 rogue clients (only actions whose effect on the connection is certain) and the stale events a finished link can still emit, in every order relative to connections reusing its slot; for every protocol-obeying client the C01, C06 and C09 oracles hold and its connection is never closed; stale Disconnect/Shadow events acting on a later connection are violations. Sampling, not proof.",
   ROUTER_NOTE, "deterministic simulation with fault injection (rogue packets, stale events, drops, stalls)"),
 "C15": ("routersim", "exploration", "DESIGN.md 5.1, 6/C15",
   "Retained-message history model (set / cleared / unspecified per topic, indexed by acceptance order); every forward flagged retain=1 must be the replay owed to a new non-shared subscription with a value held since that subscription was accepted; replay completeness at quiescence when it fits the window. Sampling, not proof.",
   ROUTER_NOTE, "deterministic simulation with seeded scheduler + retained-map reference model"),
 "C16": ("netsim+routersim", "fault_enumeration", "DESIGN.md 5.2, 6/C16",
   "Full stack (real remote() task, Network, codecs, router on virtual time): for each seeded session of a client with a will, the connection is cut after EVERY byte offset of the session and, at frame boundaries, left silent until keep-alive expiry; the will must reach the watcher exactly once iff CONNECT was complete and no complete DISCONNECT was delivered; retain-as-registered checked at a later subscriber. Variants per seeded session: nobody subscribed to the will topic until afterwards (only the retained copy is observable), the same client id living a second time without a will and being cut (no will may appear), an empty client id (broker-assigned), every encoding of an MQTT 5 DISCONNECT (no body, reason code only, empty properties, user property, reason string), a refused CONNECT with a will beforehand. The router half is additionally explored under the seeded scheduler (routersim) with a will ledger in the reference model.",
   "Trusted: netsim harness (duplex transport, scripted clients using rumqttc codecs, paused tokio clock), the reference predicate for 'DISCONNECT processed'. Will-delay 0 only; takeover-before-will histories are excluded as the statement says.",
   "deterministic simulation on virtual time, crash points (cut offsets) enumerated per seeded session"),
 "C17": ("routersim", "exploration", "DESIGN.md 5.1, 6/C17",
   "Ledger per (group, message): forwarded to at most one member, never twice (except at-least-once redelivery after an unacknowledged recipient left), per-member order, never to a non-member after it left, completeness at quiescence incl. forwards left in dead members' buffers; three strategies with the Random one driven by the choice stream; members may repeat their SUBSCRIBE; bursts large enough to fill a member's window, with C09's window invariants checked on every forward. Sampling, not proof.",
   ROUTER_NOTE, "deterministic simulation with seeded scheduler + group ledger"),
 "C19": ("netsim", "exploration", "DESIGN.md 5.2, 6/C19",
   "Seeded connection-attempt histories against the real per-connection task (mqtt_connect, handle_auth, RemoteLink::new, router admission) on a v4 or v5 listener with four authentication configurations and small connection limits; a reference admission predicate decides each attempt (left open only where static and external credentials disagree), a witness observes whether a refused connection's SUBSCRIBE/PUBLISH had any effect, router snapshot invariants (distinct client ids, <= max_connections) after each attempt; the login alphabet contains near misses of listed passwords (prefix, extension, empty, other case). Sampling, not proof.",
   "Trusted: netsim harness, the reference predicate. Empty client ids get a UUID (not seamed: only accept/reject is judged).",
   "deterministic simulation on virtual time + reference predicate"),
 "C20": ("netsim", "exploration", "DESIGN.md 5.2, 6/C20",
   "Publisher and subscriber on every pair of protocol versions through the real listeners' connection tasks; every subset of the 7 publish properties, publisher and broker topic aliases, subscription identifiers, QoS 0-2 handshakes, PINGRESP/SUBACK/UNSUBACK/DISCONNECT-with-reason notifications; the subscriber decodes the broker's bytes with the client codec of its version: same topic and payload, properties preserved towards v5 and absent towards v4, no connection task panics, no zombie registration. One QoS 2 release may be held back over later publishes (release order = publish order) with alias re-bindings in between; a subscriber with broker-assigned aliases changes its subscriptions and comes back; received aliases are judged against the topic-alias-maximum the subscriber announced (with a receive-maximum next to it in half of the v5 runs). Sampling, not proof.",
   "Trusted: netsim harness; rumqttc codecs as the decoding oracle on the client side.",
   "deterministic simulation on virtual time + differential decode at the subscriber's transport"),
 "C13": ("logsim", "exploration", "DESIGN.md 5.5, 6/C13",
   "Seeded search over histories of appends interleaved with reads by independent cursor holders (fresh, stale, tag, continuation, fabricated cursors) on seeded segment geometries, each read checked against a reference vector; sampling, not proof.",
   "Trusted: the reference vector, and append()/_head_and_tail() as the observation of what is retained. Single-threaded (the log is owned by the router thread).",
   "deterministic simulation (seeded histories, reference model)"),
 "C02": ("clientsim", "fault_enumeration", "DESIGN.md 5.3, 6/C02, 12.6",
   "The real rumqttc client (AsyncClient, EventLoop::poll, MqttState, Network, codecs; MQTT 3.1.1 and 5) against a scripted broker on an in-memory transport and paused tokio time. For every seeded history of user requests and broker replies (in-order, out-of-order, duplicate, stray and failure-reason acks, wrap-around collisions, receive-maximum changes, repeated failures) the connection is cut after EVERY byte offset of both byte streams and the run re-executed. After every poll each accepted QoS>0 publish whose final ack the broker has not sent must be in state.clean() of a clone / state.collision / EventLoop.pending; on a session-present reconnect with a prompt in-order broker every held publish and release must be on the wire within 5 simulated seconds without user action.",
   CLIENT_NOTE, "deterministic simulation on virtual time, crash points (cut offsets) enumerated per seeded history"),
 "C07": ("clientsim", "exploration", "DESIGN.md 5.3, 6/C07, 12.6",
   "Same harness. Wire-level and state-level invariants after every packet and poll: non-zero ids within the configured limit, no id shared by two simultaneously unacknowledged flows (incl. the PUBREL phase), inflight() and the broker-side count of unanswered publishes never above the (negotiated) limit and never below what the wire holds, no NEW user request on the wire while the window is certainly full or a collision is parked, a parked collision only while its id is held, and bounded liveness: once the broker has answered everything, requests still queued reach the wire within 1 simulated second. Inflight limits 1..65535, receive-maximum lowered and raised between connections. Sampling, not proof.",
   CLIENT_NOTE, "deterministic simulation on virtual time + wire/state invariants + bounded liveness after faults stop"),
 "C10": ("clientsim", "exploration", "DESIGN.md 5.3, 6/C10, 12.6",
   "Same harness with a hostile broker script: every packet type and id (valid, unsolicited, repeated, above the limit), batches of 0-12 packets per read, v5 reason codes, topic aliases, server DISCONNECT, manual_acks on/off. Oracle per poll result and per wire packet: Incoming events equal the broker's packets exactly once in wire order; each surfaced QoS1/2 publish and known PUBREL has its PUBACK/PUBREC/PUBCOMP on the wire (none with manual acks, only what the user requested); unsolicited acks end in a state error before any later packet is surfaced (and the packet handled last must carry the id the error names: handled packets may not vanish from the event queue); Outgoing notifications and written packets match one to one in kind and id; DUP re-deliveries are answered like first deliveries; a publish naming a topic alias nobody established must be answered with a DISCONNECT; any panic of the client is a violation (rumqttc is built with overflow checks). Sampling, not proof.",
   CLIENT_NOTE, "deterministic simulation on virtual time with a fault-injecting (protocol-violating) peer"),
 "C11": ("clientsim", "fault_enumeration", "DESIGN.md 5.3, 6/C11, 12.6",
   "Same harness and the same cut-offset enumeration as C02 (every byte offset of both streams of each seeded history, further seeded cuts during the replay). On the connection after a failure: with session present every carried-over publish is retransmitted with its original id and content before any request issued after the failure reaches the wire, and - MQTT 3.1.1, QoS 1, broker acknowledging in order - in the order of first transmission even across id wrap-around; with no session none of the carried-over requests is sent and a fresh request issued afterwards is on the wire within 1 simulated second.",
   CLIENT_NOTE, "deterministic simulation on virtual time, crash points (cut offsets) enumerated per seeded history"),
 "C18": ("clientsim", "exploration", "DESIGN.md 5.3, 6/C18, 12.6",
   "Same harness, only virtual time matters: keep-alive K from 1 s to hours and 0, broker PINGRESP delays anywhere in [0, K), other traffic in either direction only, the broker going silent (answers nothing / half-open / stops reading so that writes stall) at a seeded instant, connects that never complete (no CONNACK, partial CONNACK, hanging transport connect). Oracle on the simulated clock: a PINGREQ at least once per K on an established connection, an error from poll() no later than 2K after the broker went silent (plus the flush timeout when writes stall), never a keep-alive error while every PINGREQ is answered within K, no PINGREQ ever with K=0 over 600 s, connect failures reported as timeouts at the configured connection timeout. Further run shapes: the broker comes back after the silence was reported and the next connection is judged like a first one; an injected connection failure in an answered run (optionally right after a PINGREQ); busy runs (request channel never empty, user loop pausing up to K/200 between polls, ping due within 1.5 K); poll-gap runs (the user loop pauses up to K/2 right before a ping is due, answers take up to K - 50 ms); an MQTT 5 server keep-alive in the CONNACK; a window of 3 with acks that never come. Sampling, not proof.",
   CLIENT_NOTE, "deterministic simulation on virtual (discrete-event) time with silent / stalled / half-open peer faults"),
}

NOT_APPLICABLE = {
 "C04": "pure function of one packet value (encode/decode round trip): no schedule, clock, fault or interleaving for a simulator to own; see DESIGN.md section 7",
 "C12": "pure function of two strings (topic/filter matching and validation): no schedule, clock, fault or interleaving; see DESIGN.md section 7",
}

PENDING_REASON = "not claimed yet: the simulation check for this property has not been built in this round (design in DESIGN.md section 6)"

props = [json.loads(l)["id"] for l in open("/verif/properties.jsonl")]
hooks = subprocess.run(["git","-C","/repo","log","--format=%H %s"],capture_output=True,text=True).stdout.splitlines()
hook_commits = [l.split()[0] for l in hooks if "verif hooks" in l]

checks = []
for pid in props:
    if pid in CLAIMED:
        eng, level, ref, text, note, tech = CLAIMED[pid]
        checks.append({
            "property_id": pid,
            "quick_cmd": f"./check {pid} quick",
            "thorough_cmd": f"./check {pid} thorough",
            "evidence_file": f"/verif/evidence/{pid}.json",
            "replay_cmd_template": "./check replay {path}",
            "engine": eng,
            "level_claimed": {"category": level, "text": text, "design_ref": ref},
            "level_note": note,
            "technique": tech,
        })
na = []
for pid in props:
    if pid in CLAIMED: continue
    na.append({"property_id": pid, "reason": NOT_APPLICABLE.get(pid, PENDING_REASON)})

engines = {}
for pid,(eng,*_) in CLAIMED.items():
    engines.setdefault(eng, []).append(pid)

manifest = {
 "version": 1,
 "setup_cmd": "./check build",
 "hooks": {
   "guard": "--cfg rumqtt_verif (rustc cfg flag; no Cargo feature)",
   "enable": "RUSTFLAGS via /verif/sim/.cargo/config.toml: --cfg rumqtt_verif --cfg tokio_unstable; rumqttd and rumqttc are path dependencies of /verif/sim, so every check rebuilds them from /repo's working tree",
   "baseline_off_cmd": "cd /repo && cargo test --workspace --no-fail-fast --offline",
   "source_commits": hook_commits,
   "add_only": True,
 },
 "engines": [{"name": e, "path": (lambda b: f"/verif/sim/src/engines/{b}.rs" if b in ("logsim","streamsim","netsim") else f"/verif/sim/src/engines/{b}")(e.split('+')[0]), "serves_properties": sorted(p), "kind_free_text": "seeded deterministic simulator, single-threaded per run, 16 runs in parallel" + (" (two engines serve this property: " + " and ".join(e.split('+')) + ")" if '+' in e else "")} for e,p in sorted(engines.items())],
 "checks": checks,
 "not_applicable": na,
 "notes": "Exit codes: 0 held, 1 VIOLATION (with replay file), 2 harness/build error. VERIF_SEED selects the base seed (default 1). Known findings: /verif/KNOWN_FINDINGS.txt.",
}
json.dump(manifest, open("/verif/MANIFEST.json","w"), indent=1)
print("claimed:", sorted(CLAIMED), "not claimed:", [n["property_id"] for n in na])
