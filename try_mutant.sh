#!/bin/bash
# usage: try_mutant.sh <patch.diff> <prop> [prop...]   applies to /repo, runs quick checks, reverts
set -u
patch="$1"; shift
git -C /repo apply "$patch" || { echo "patch does not apply"; exit 2; }
for p in "$@"; do
  VERIF_REPLAY_DIR=/tmp/mut_replays VERIF_EVIDENCE_DIR=/tmp/mut_ev /verif/check "$p" quick > /tmp/mut_out_$p.txt 2>&1
  echo "$p exit=$? $(grep -E '^violation|^VIOLATION' /tmp/mut_out_$p.txt | head -2 | cut -c1-260)"
done
git -C /repo checkout -- .
