//! SimNet: the in-memory transport between the real rumqttc event loop and
//! the scripted broker. One `Net` per run, holding every connection the
//! client opened. Everything is driven by the single simulator thread; the
//! mutex only exists because `rumqttc::verif::Stream` must be `Send`.
//!
//! Byte counters are global over the run (all connections): a cut is "after
//! the k-th byte of the client->broker stream" or "after the k-th byte the
//! client read from the broker->client stream", whichever connection carries
//! that byte.

use std::collections::VecDeque;
use std::io;
use std::pin::Pin;
use std::sync::{Arc, Mutex};
use std::task::{Context, Poll, Waker};
use tokio::io::{AsyncRead, AsyncWrite, ReadBuf};

#[derive(Clone, Copy, Debug, PartialEq, Eq)]
pub enum Dir {
    C2S,
    S2C,
}

#[derive(Clone, Copy, Debug, PartialEq, Eq)]
pub enum ConnectMode {
    /// The connector resolves at once with a fresh connection.
    Accept,
    /// The connector future never resolves (SYN black hole).
    Hang,
    /// The connector resolves with `ConnectionRefused`.
    Refuse,
}

pub struct Conn {
    /// Written by the client, not yet taken by the script.
    pub c2s: VecDeque<u8>,
    /// Written by the script, not yet read by the client.
    pub s2c: VecDeque<u8>,
    /// Both directions fail from now on.
    pub broken: bool,
    /// The script closed its end in an orderly way: the client reads what is
    /// queued, then EOF; its writes fail.
    pub closed_by_script: bool,
    /// The client dropped its end.
    pub closed_by_client: bool,
    /// Client writes are accepted and vanish, nothing is ever delivered.
    pub half_open: bool,
    /// Client writes return `Pending` (the broker stopped reading).
    pub stall_writes: bool,
    /// A broken connection reports EOF (true) or ConnectionReset (false) to
    /// the reader.
    pub eof_on_break: bool,
    pub read_waker: Option<Waker>,
    pub write_waker: Option<Waker>,
    /// Bytes of this connection the client wrote / read.
    pub c2s_bytes: u64,
    pub s2c_bytes: u64,
    /// A client write was refused (Pending) because of `stall_writes`.
    pub stall_fired: bool,
    /// Bytes swallowed by `half_open`.
    pub half_open_swallowed: u64,
    /// The cut that broke this connection, if any.
    pub cut_fired: Option<Dir>,
}

impl Conn {
    fn new(eof_on_break: bool) -> Conn {
        Conn {
            c2s: VecDeque::new(),
            s2c: VecDeque::new(),
            broken: false,
            closed_by_script: false,
            closed_by_client: false,
            half_open: false,
            stall_writes: false,
            eof_on_break,
            read_waker: None,
            write_waker: None,
            c2s_bytes: 0,
            s2c_bytes: 0,
            stall_fired: false,
            half_open_swallowed: 0,
            cut_fired: None,
        }
    }

    fn wake_all(&mut self) {
        if let Some(w) = self.read_waker.take() {
            w.wake();
        }
        if let Some(w) = self.write_waker.take() {
            w.wake();
        }
    }
}

pub struct Net {
    pub conns: Vec<Conn>,
    pub connect_mode: ConnectMode,
    /// Number of times the connector was invoked.
    pub connect_calls: u32,
    /// Global byte counters.
    pub c2s_total: u64,
    pub s2c_total: u64,
    /// Armed cuts: the connection carrying the byte with this global index
    /// (0-based: "after k bytes") breaks when the counter reaches it.
    pub cut_c2s_at: Option<u64>,
    pub cut_s2c_at: Option<u64>,
    /// Cyclic pattern of maximal chunk sizes for client reads and writes.
    pub read_chunks: Vec<usize>,
    pub write_chunks: Vec<usize>,
    rc: usize,
    wc: usize,
    pub eof_on_break: bool,
    /// Number of cuts that fired so far.
    pub cuts_fired: u32,
}

pub type NetRef = Arc<Mutex<Net>>;

impl Net {
    pub fn new(read_chunks: Vec<usize>, write_chunks: Vec<usize>, eof_on_break: bool) -> NetRef {
        Arc::new(Mutex::new(Net {
            conns: Vec::new(),
            connect_mode: ConnectMode::Accept,
            connect_calls: 0,
            c2s_total: 0,
            s2c_total: 0,
            cut_c2s_at: None,
            cut_s2c_at: None,
            read_chunks,
            write_chunks,
            rc: 0,
            wc: 0,
            eof_on_break,
            cuts_fired: 0,
        }))
    }

    pub fn break_conn(&mut self, idx: usize) {
        if let Some(c) = self.conns.get_mut(idx) {
            c.broken = true;
            c.wake_all();
        }
    }

    pub fn close_by_script(&mut self, idx: usize) {
        if let Some(c) = self.conns.get_mut(idx) {
            c.closed_by_script = true;
            c.wake_all();
        }
    }

    /// Script side: append bytes for the client to read.
    pub fn script_write(&mut self, idx: usize, bytes: &[u8]) {
        if let Some(c) = self.conns.get_mut(idx) {
            if c.broken || c.closed_by_script || c.closed_by_client {
                return;
            }
            c.s2c.extend(bytes.iter().copied());
            if !c.half_open {
                if let Some(w) = c.read_waker.take() {
                    w.wake();
                }
            }
        }
    }

    /// Script side: take everything the client wrote so far.
    pub fn script_take(&mut self, idx: usize, out: &mut Vec<u8>) {
        if let Some(c) = self.conns.get_mut(idx) {
            out.extend(c.c2s.drain(..));
        }
    }

    pub fn set_stall(&mut self, idx: usize, on: bool) {
        if let Some(c) = self.conns.get_mut(idx) {
            c.stall_writes = on;
            if !on {
                if let Some(w) = c.write_waker.take() {
                    w.wake();
                }
            }
        }
    }

    fn next_read_chunk(&mut self) -> usize {
        if self.read_chunks.is_empty() {
            return usize::MAX;
        }
        let v = self.read_chunks[self.rc % self.read_chunks.len()];
        self.rc += 1;
        v.max(1)
    }

    fn next_write_chunk(&mut self) -> usize {
        if self.write_chunks.is_empty() {
            return usize::MAX;
        }
        let v = self.write_chunks[self.wc % self.write_chunks.len()];
        self.wc += 1;
        v.max(1)
    }
}

/// The client's end of one connection.
pub struct ClientIo {
    net: NetRef,
    idx: usize,
}

impl Drop for ClientIo {
    fn drop(&mut self) {
        if let Ok(mut n) = self.net.lock() {
            if let Some(c) = n.conns.get_mut(self.idx) {
                c.closed_by_client = true;
                c.read_waker = None;
                c.write_waker = None;
            }
        }
    }
}

impl AsyncRead for ClientIo {
    fn poll_read(
        self: Pin<&mut Self>,
        cx: &mut Context<'_>,
        buf: &mut ReadBuf<'_>,
    ) -> Poll<io::Result<()>> {
        let me = self.get_mut();
        let mut n = me.net.lock().unwrap();
        let idx = me.idx;
        // a cut at the current read offset fires before anything more is delivered
        if let Some(at) = n.cut_s2c_at {
            if n.s2c_total >= at && !n.conns[idx].broken {
                n.cut_s2c_at = None;
                n.cuts_fired += 1;
                let c = &mut n.conns[idx];
                c.broken = true;
                c.cut_fired = Some(Dir::S2C);
                c.wake_all();
            }
        }
        if n.conns[idx].broken {
            return if n.conns[idx].eof_on_break {
                Poll::Ready(Ok(()))
            } else {
                Poll::Ready(Err(io::Error::new(
                    io::ErrorKind::ConnectionReset,
                    "simnet: connection reset",
                )))
            };
        }
        if n.conns[idx].half_open || n.conns[idx].s2c.is_empty() {
            if n.conns[idx].closed_by_script && !n.conns[idx].half_open {
                return Poll::Ready(Ok(())); // orderly EOF
            }
            n.conns[idx].read_waker = Some(cx.waker().clone());
            return Poll::Pending;
        }
        let mut want = n.next_read_chunk().min(buf.remaining());
        if let Some(at) = n.cut_s2c_at {
            want = want.min((at - n.s2c_total) as usize);
        }
        let c = &mut n.conns[idx];
        let take = want.min(c.s2c.len());
        let (a, b) = c.s2c.as_slices();
        if take <= a.len() {
            buf.put_slice(&a[..take]);
        } else {
            buf.put_slice(a);
            buf.put_slice(&b[..take - a.len()]);
        }
        c.s2c.drain(..take);
        c.s2c_bytes += take as u64;
        n.s2c_total += take as u64;
        Poll::Ready(Ok(()))
    }
}

impl AsyncWrite for ClientIo {
    fn poll_write(
        self: Pin<&mut Self>,
        cx: &mut Context<'_>,
        data: &[u8],
    ) -> Poll<io::Result<usize>> {
        let me = self.get_mut();
        let mut n = me.net.lock().unwrap();
        let idx = me.idx;
        if let Some(at) = n.cut_c2s_at {
            if n.c2s_total >= at && !n.conns[idx].broken {
                n.cut_c2s_at = None;
                n.cuts_fired += 1;
                let c = &mut n.conns[idx];
                c.broken = true;
                c.cut_fired = Some(Dir::C2S);
                c.wake_all();
            }
        }
        if n.conns[idx].broken || n.conns[idx].closed_by_script {
            return Poll::Ready(Err(io::Error::new(
                io::ErrorKind::BrokenPipe,
                "simnet: broken pipe",
            )));
        }
        if data.is_empty() {
            return Poll::Ready(Ok(0));
        }
        if n.conns[idx].stall_writes {
            let c = &mut n.conns[idx];
            c.stall_fired = true;
            c.write_waker = Some(cx.waker().clone());
            return Poll::Pending;
        }
        let mut take = n.next_write_chunk().min(data.len());
        if let Some(at) = n.cut_c2s_at {
            take = take.min((at - n.c2s_total) as usize);
        }
        let c = &mut n.conns[idx];
        if c.half_open {
            c.half_open_swallowed += take as u64;
        } else {
            c.c2s.extend(data[..take].iter().copied());
        }
        c.c2s_bytes += take as u64;
        n.c2s_total += take as u64;
        // the byte that completes the armed offset breaks the connection now,
        // so that the reader learns about it without another write
        if let Some(at) = n.cut_c2s_at {
            if n.c2s_total >= at {
                n.cut_c2s_at = None;
                n.cuts_fired += 1;
                let c = &mut n.conns[idx];
                c.broken = true;
                c.cut_fired = Some(Dir::C2S);
                c.wake_all();
            }
        }
        Poll::Ready(Ok(take))
    }

    fn poll_flush(self: Pin<&mut Self>, _cx: &mut Context<'_>) -> Poll<io::Result<()>> {
        let me = self.get_mut();
        let n = me.net.lock().unwrap();
        if n.conns[me.idx].broken {
            return Poll::Ready(Err(io::Error::new(
                io::ErrorKind::BrokenPipe,
                "simnet: broken pipe",
            )));
        }
        Poll::Ready(Ok(()))
    }

    fn poll_shutdown(self: Pin<&mut Self>, _cx: &mut Context<'_>) -> Poll<io::Result<()>> {
        Poll::Ready(Ok(()))
    }
}

/// Installs the thread-local connector; the guard removes it again.
pub struct ConnectorGuard;

impl Drop for ConnectorGuard {
    fn drop(&mut self) {
        rumqttc::verif::set_connector(None);
    }
}

pub fn install_connector(net: NetRef) -> ConnectorGuard {
    rumqttc::verif::set_connector(Some(Box::new(
        move |_client_id: &str| -> rumqttc::verif::ConnectFuture {
            let net = net.clone();
            let mode = {
                let mut n = net.lock().unwrap();
                n.connect_calls += 1;
                n.connect_mode
            };
            match mode {
                ConnectMode::Hang => Box::pin(std::future::pending()),
                ConnectMode::Refuse => Box::pin(async {
                    Err(io::Error::new(
                        io::ErrorKind::ConnectionRefused,
                        "simnet: connection refused",
                    ))
                }),
                ConnectMode::Accept => Box::pin(async move {
                    let idx = {
                        let mut n = net.lock().unwrap();
                        let e = n.eof_on_break;
                        n.conns.push(Conn::new(e));
                        n.conns.len() - 1
                    };
                    let s: rumqttc::verif::Stream = Box::new(ClientIo { net, idx });
                    Ok(s)
                }),
            }
        },
    )));
    ConnectorGuard
}
