#!/bin/bash
# Re-runs every stored seeded change against the CURRENT checks (regression of detection power).
# For each /verif/seeded/<id>/patch.diff: apply on a scratch worktree of /repo HEAD, rebuild the
# simulator against it, run the quick check of the property (then of every property named in
# meta.json's check_result) until one reports a violation. Output: one line per seeded change.
set -u
out="${1:-/tmp/rerun_seeded.log}"
: > "$out"
for d in /verif/seeded/*/; do
  id=$(basename "$d")
  prop=${id%%-*}
  # ONLY="C18 C08" restricts the regression to the seeded changes of those properties
  if [ -n "${ONLY:-}" ] && ! echo " $ONLY " | grep -q " $prop "; then continue; fi
  props=$(python3 - "$d" "$prop" <<'PY'
import json,re,sys
d,prop=sys.argv[1],sys.argv[2]
m=json.load(open(d+'/meta.json'))
seen=[prop]
for p in re.findall(r'C\d\d', m.get('check_result','')):
    if p not in seen: seen.append(p)
print(' '.join(seen))
PY
)
  res=""
  for p in $props; do
    o=$(/verif/try_mutant.sh "$d/patch.diff" "$p" 2>&1 | grep -E "^C[0-9]+ exit=|patch does not apply" | head -1)
    if echo "$o" | grep -q "patch does not apply"; then res="PATCH-DOES-NOT-APPLY-ON-HEAD"; break; fi
    code=$(echo "$o" | sed -n 's/^C[0-9]* exit=\([0-9]*\).*/\1/p')
    cls=$(echo "$o" | grep -o "\[[^]]*\]" | head -1)
    if [ "$code" = "1" ]; then res="caught by $p $cls"; break; fi
    res="$res not-caught-by-$p(exit=$code)"
  done
  echo "$id: $res" | tee -a "$out"
done
echo DONE >> "$out"
