#!/bin/bash
# usage: try_mutant.sh <patch.diff> <prop> [prop...]
# Runs the quick check of each property against a scratch worktree of /repo (HEAD) with the
# patch applied. /repo itself is not touched (background runs build from it), so the
# simulator is built a second time under /tmp/mutsim against /tmp/wt/mut.
set -u
patch="$(realpath "$1")"; shift
TAG="${MUT_TAG:-mut}"   # MUT_TAG=<name> lets two instances work side by side
WT=/tmp/wt/$TAG
SIM=/tmp/${TAG}sim
OUTD=/tmp/${TAG}_out
mkdir -p $OUTD
export CARGO_NET_OFFLINE=true
mkdir -p /tmp/wt
if [ ! -d "$WT" ]; then git -C /repo worktree add -f --detach "$WT" HEAD -q || exit 2; fi
git -C "$WT" checkout -q --detach "$(git -C /repo rev-parse HEAD)" && git -C "$WT" reset -q --hard && git -C "$WT" clean -qfd
git -C "$WT" apply "$patch" 2>/dev/null || git -C "$WT" apply -C1 "$patch" || { echo "patch does not apply"; exit 2; }   # (-C1: the patch was cut against an earlier commit of /repo)
mkdir -p "$SIM"
rsync -a --delete --exclude target /verif/sim/ "$SIM"/
sed -i "s#/repo/rumqtt#$WT/rumqtt#" "$SIM/Cargo.toml"
( cd "$SIM" && cargo build --release --offline 2>&1 | grep -E "^error" -A6 | head -20 )
for p in "$@"; do
  ( cd "$SIM" && VERIF_REPLAY_DIR=/tmp/${TAG}_replays VERIF_EVIDENCE_DIR=/tmp/${TAG}_ev timeout 900 ./target/release/verifsim run "$p" quick > $OUTD/$p.txt 2>&1 )
  echo "$p exit=$? $(grep -E '^violation|^VIOLATION' $OUTD/$p.txt | head -2 | cut -c1-260)"
done
git -C "$WT" reset -q --hard
