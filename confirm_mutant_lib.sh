#!/bin/bash
# usage: confirm_mutant_lib.sh <worktree> <patch.diff> <crate> <demo.diff> <test filter>
# For demonstrations that are in-crate unit tests delivered as a diff.
set -u
wt="$1"; patch="$2"; crate="$3"; demo="$4"; filter="$5"
cd "$wt" || exit 2
export CARGO_NET_OFFLINE=true
git checkout -q -- .
git apply "$patch" || { echo "VERDICT $patch: patch does not apply"; exit 2; }
cargo test -p "$crate" --offline --lib > /tmp/confirm_lib.txt 2>&1; lib_with=$?
git apply "$demo" || { echo "VERDICT $patch: demo does not apply on top"; git checkout -q -- .; exit 2; }
cargo test -p "$crate" --offline --lib "$filter" > /tmp/confirm_demo_with.txt 2>&1; demo_with=$?
git checkout -q -- .
git apply "$demo"
cargo test -p "$crate" --offline --lib "$filter" > /tmp/confirm_demo_without.txt 2>&1; demo_without=$?
git checkout -q -- .
echo "VERDICT $patch: existing_lib_tests_with_patch=$lib_with (0=pass) demo_with_patch=$demo_with (nonzero=fails) demo_without_patch=$demo_without (0=pass)"
