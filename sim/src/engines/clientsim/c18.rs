//! C18: keep-alive on virtual time.

use super::cfg::C18Mode;
use super::cl::{ErrKind, Ev, PErr};
use super::net::ConnectMode;
use super::world::{OwedKind, World, TOL_MS};
use crate::tr;

impl<'a> World<'a> {
    fn k_ms(&self) -> u64 {
        self.k_eff_ms.unwrap_or(self.cfg.keep_alive_s * 1000)
    }

    pub fn c18_setup(&mut self) {
        let k = self.k_ms();
        match self.cfg.c18 {
            C18Mode::Answer => {
                self.end_ms = 20 * k + 50;
                // the connection fails once on the way (possibly with a ping
                // outstanding); the next one is answered like the first
                if k > 0 && self.ch.coin(1, 3) {
                    self.c18_break_at_ms = Some(self.ch.pick((8 * k) as u32 + 1) as u64);
                    self.c18_break_on_ping = self.ch.coin(1, 2);
                } else if (2000..=10_000).contains(&k) && self.ch.coin(1, 4) {
                    // sustained traffic: the request channel is never empty when
                    // the event loop looks, and the user's loop takes up to K/200
                    // between two polls. The timer must still get its turn: with
                    // a fair select it does within a few polls, 100 polls (K/2)
                    // are allowed
                    self.c18_busy = true;
                    self.end_ms = 4 * k + 50;
                    self.rep.probe("c18_busy_run");
                } else if k >= 1000 && self.ch.coin(1, 4) {
                    // the user's loop is late for a tick now and then: 20 ms before a
                    // PINGREQ is due it stops polling for up to K/2. The ping goes out
                    // late (allowed: K/2), and the NEXT interval has to be counted from
                    // that ping - an answer that takes almost K is still in time
                    self.c18_gap = true;
                    self.end_ms = 8 * k + 50;
                    self.rep.probe("c18_poll_gap_run");
                }
            }
            C18Mode::Silent | C18Mode::SilentHalfOpen | C18Mode::SilentStalled => {
                // second life: after the failure was reported the broker is
                // back and answers; the next connection must be judged like a
                // first one (no state of the dead connection may leak into it)
                self.c18_second_life = self.ch.coin(1, 2);
                let t = match self.ch.pick(4) {
                    0 => 0,
                    1 => k + self.ch.pick(3) as u64 - 1,
                    _ => self.ch.pick((5 * k) as u32 + 1) as u64,
                };
                self.silent_at_ms = Some(t);
                self.end_ms = t + 2 * k + self.cfg.conn_timeout_s * 1000 + 5000;
            }
            C18Mode::Zero => {
                self.end_ms = 600_000;
            }
            C18Mode::NoConnAck | C18Mode::PartialConnAck => {
                self.end_ms = self.cfg.conn_timeout_s * 1000 + 1000;
            }
            C18Mode::HangConnect => {
                self.net.lock().unwrap().connect_mode = ConnectMode::Hang;
                self.end_ms = self.cfg.conn_timeout_s * 1000 + 1000;
            }
            C18Mode::Off => {}
        }
        tr!(self.rep, "c18 mode {:?} silent_at={:?} end={}", self.cfg.c18, self.silent_at_ms, self.end_ms);
    }

    pub fn c18_between(&mut self) {
        let now = self.now_ms();
        // the broker goes silent
        if let Some(t) = self.silent_at_ms {
            if !self.silent && now >= t {
                if let Some(idx) = self.cur() {
                    if self.conns[idx].connack_sent && self.established {
                        self.silent = true;
                        self.silent_t = Some(now);
                        tr!(self.rep, "{now} broker goes silent ({:?})", self.cfg.c18);
                        self.rep.fault("broker_silent");
                        match self.cfg.c18 {
                            C18Mode::SilentHalfOpen => {
                                self.net.lock().unwrap().conns[idx].half_open = true;
                                self.rep.fault("half_open");
                            }
                            C18Mode::SilentStalled => {
                                self.net.lock().unwrap().set_stall(idx, true);
                            }
                            _ => {}
                        }
                    }
                }
            }
        }
        let Some(idx) = self.cur() else { return };
        if !self.conns[idx].connack_sent {
            return;
        }
        if let Some(t) = self.c18_break_at_ms {
            if now >= t && !self.c18_break_on_ping && self.established {
                self.c18_break(idx, now);
                return;
            }
        }
        if self.c18_busy {
            for _ in 0..=self.cfg.cap {
                if !self.handle.try_publish("t/busy", 0, b"busy") {
                    break;
                }
            }
            self.run_due_pub();
            return;
        }
        // with a small window the user keeps publishing into the silence: ids wrap
        // onto publishes the broker never acknowledged (a parked publish must not
        // delay the report)
        if self.silent && self.cfg.limit == 3 && self.user_left > 0 {
            // (from a seeded moment of the silence on: before or after the first
            // unanswered ping)
            if self.c18_pub_delay.is_none() {
                let k = self.k_ms();
                self.c18_pub_delay = Some(*self.ch.choose(&[0u64, k / 2, k, 3 * k / 2]));
            }
            if now >= self.silent_t.unwrap_or(now) + self.c18_pub_delay.unwrap_or(0) {
                self.user_request();
            }
        }
        // light traffic in either direction
        let n = self.ch.pick(3);
        for _ in 0..n {
            match self.ch.pick(4) {
                0 if self.user_left > 0 => self.user_request(),
                1 if !self.silent && self.cfg.w_inbound > 0 => {
                    // one inbound publish
                    self.inbound_seq += 1;
                    let seq = self.inbound_seq;
                    let qos = self.ch.pick(3) as u8;
                    self.send(
                        idx,
                        super::proto::Pk::Publish {
                            dup: false,
                            qos,
                            retain: false,
                            topic: "in/0".into(),
                            pkid: if qos == 0 { 0 } else { (seq % 50 + 1) as u16 },
                            payload: format!("i{seq}").into_bytes(),
                            alias: None,
                        },
                    );
                }
                _ => {}
            }
        }
        if !self.silent {
            while self.script_ack(idx, true) {}
        }
    }

    /// Allowance for the ping cadence in a busy run (see `c18_setup`).
    pub fn c18_slack(&self) -> u64 {
        if self.c18_busy || self.c18_gap {
            self.k_ms() / 2
        } else {
            0
        }
    }

    /// The pause of the user's loop before the next poll of a busy run.
    pub fn c18_busy_pause(&mut self) -> Option<std::time::Duration> {
        if !self.c18_busy || self.c18_done {
            return None;
        }
        let dmax = (self.k_ms() / 200).max(1) as u32;
        Some(std::time::Duration::from_millis(self.ch.pick(dmax + 1) as u64))
    }

    /// When the next poll gap of a gap run starts (20 ms before the next PINGREQ is due).
    pub fn c18_gap_due(&self) -> Option<u64> {
        if !self.c18_gap || self.c18_done || !self.established {
            return None;
        }
        let idx = self.cur()?;
        let c = &self.conns[idx];
        if !c.connack_sent {
            return None;
        }
        let last = c.last_ping_ms.unwrap_or(c.connack_ms);
        if self.c18_gap_taken_for == Some(last) {
            return None;
        }
        Some(last + self.k_ms() - 20)
    }

    /// The user's loop does not poll for a while (gap runs).
    pub fn c18_gap_pause(&mut self) -> Option<std::time::Duration> {
        let due = self.c18_gap_due()?;
        let now = self.now_ms();
        if now < due {
            return None;
        }
        let idx = self.cur()?;
        let last = self.conns[idx].last_ping_ms.unwrap_or(self.conns[idx].connack_ms);
        self.c18_gap_taken_for = Some(last);
        if !self.ch.coin(2, 3) {
            return None;
        }
        let k = self.k_ms();
        let g = 21 + self.ch.pick((k / 2 - 21) as u32) as u64;
        tr!(self.rep, "{now} the user's loop pauses for {g} ms");
        self.rep.fault("poll_gap");
        Some(std::time::Duration::from_millis(g))
    }

    /// The injected connection failure of Answer mode.
    pub fn c18_break(&mut self, idx: usize, now: u64) {
        tr!(self.rep, "{now} injected failure of connection #{idx}");
        self.rep.fault("c18_connection_failure");
        self.c18_break_at_ms = None;
        self.c18_break_pending = false;
        self.c18_broke = true;
        if self.ch.coin(1, 2) {
            self.net.lock().unwrap().close_by_script(idx);
        } else {
            self.net.lock().unwrap().break_conn(idx);
        }
        // the reconnect and its handshake take no simulated time worth
        // mentioning; give the second connection its share of intervals
        let k = self.k_ms();
        self.end_ms = self.end_ms.max(now + 8 * k + 50);
    }

    pub fn c18_on_ping(&mut self, idx: usize, now: u64) {
        if !self.is(super::cfg::P::C18) {
            return;
        }
        self.conns[idx].pings += 1;
        let k = self.k_ms();
        if k == 0 {
            self.violate(
                "ping_with_zero_keepalive".into(),
                format!("PINGREQ on the wire at {now} ms although keep-alive is zero"),
            );
            return;
        }
        if let Some(t) = self.c18_break_at_ms {
            if now >= t && self.c18_break_on_ping {
                self.c18_break_pending = true;
            }
        }
        let last = self.conns[idx].last_ping_ms.unwrap_or(self.conns[idx].connack_ms);
        self.conns[idx].last_ping_ms = Some(now);
        if !self.writes_refused && now - last > k + TOL_MS + self.c18_slack() {
            let first = self.conns[idx].pings == 1;
            self.violate(
                format!("ping_late:{}", if first { "first" } else { "gap" }),
                format!("PINGREQ at {now} ms, previous {} at {last} ms: {} ms apart with keep-alive {k} ms", if first { "CONNACK" } else { "PINGREQ" }, now - last),
            );
        }
    }

    /// Time-based checks; called whenever virtual time may have advanced.
    pub fn c18_tick(&mut self) {
        if self.viol.is_some() || self.c18_done {
            return;
        }
        let now = self.now_ms();
        let k = self.k_ms();
        match self.cfg.c18 {
            C18Mode::Answer | C18Mode::Silent | C18Mode::SilentHalfOpen | C18Mode::SilentStalled => {
                // a ping is overdue (only observable while the client's bytes reach the script)
                let observable = !self.writes_refused
                    && !(self.silent && self.cfg.c18 != C18Mode::Silent);
                if observable && self.established && k > 0 {
                    if let Some(idx) = self.cur() {
                        if self.conns[idx].connack_sent {
                            let last = self.conns[idx].last_ping_ms.unwrap_or(self.conns[idx].connack_ms);
                            if now > last + k + TOL_MS + self.c18_slack() {
                                self.violate(
                                    "ping_late:none_sent".into(),
                                    format!("no PINGREQ between {last} ms and {now} ms with keep-alive {k} ms on an established, continuously polled connection"),
                                );
                                return;
                            }
                        }
                    }
                }
                if let Some(t) = self.silent_t {
                    if !self.detected {
                        let extra = if self.cfg.c18 == C18Mode::SilentStalled {
                            self.cfg.conn_timeout_s * 1000
                        } else {
                            0
                        };
                        if now > t + 2 * k + extra + TOL_MS {
                            let mode = match self.cfg.c18 {
                                C18Mode::SilentHalfOpen => "half_open",
                                C18Mode::SilentStalled => "stalled_writes",
                                _ => "plain",
                            };
                            let v = if self.cfg.v5 { "v5" } else { "v4" };
                            self.violate(
                                format!("silent_broker_undetected:{mode}:{v}"),
                                format!("the broker went silent at {t} ms; at {now} ms (> T + 2K{} = {}) poll() has still not reported a failure", if extra > 0 { " + flush timeout" } else { "" }, t + 2 * k + extra),
                            );
                            return;
                        }
                    }
                }
            }
            C18Mode::NoConnAck | C18Mode::PartialConnAck | C18Mode::HangConnect => {
                let ct = self.cfg.conn_timeout_s * 1000;
                if !self.detected && now > ct + TOL_MS {
                    let mode = format!("{:?}", self.cfg.c18).to_lowercase();
                    self.violate(
                        format!("connect_timeout_missed:{mode}"),
                        format!("the connect started at 0 ms has not returned a timeout at {now} ms (connection_timeout {ct} ms)"),
                    );
                    return;
                }
            }
            _ => {}
        }
        if now >= self.end_ms {
            self.c18_done = true;
        }
    }

    pub fn c18_on_event(&mut self, _ev: &Ev) {
        self.c18_tick();
    }

    pub fn c18_on_err(&mut self, e: &PErr) {
        let now = self.now_ms();
        match self.cfg.c18 {
            C18Mode::Answer if self.c18_broke && !self.c18_break_reported && e.kind != ErrKind::AwaitPingResp => {
                // the failure the simulator injected: the client reconnects
                self.c18_break_reported = true;
                self.rep.probe("c18_injected_failure_reported");
            }
            C18Mode::Answer => {
                if e.kind == ErrKind::AwaitPingResp {
                    self.violate(
                        "false_keepalive_alarm".into(),
                        format!("poll returned {} at {now} ms although every PINGREQ was answered within the keep-alive interval", e.text),
                    );
                } else {
                    self.rep.probe("c18_unexpected_error");
                    tr!(self.rep, "unexpected error in Answer mode: {}", e.text);
                }
                self.c18_done = true;
            }
            C18Mode::Silent | C18Mode::SilentHalfOpen | C18Mode::SilentStalled => {
                if self.silent {
                    self.c18_tick();
                    self.detected = true;
                    self.rep.probe("silent_broker_detected");
                    if e.kind == ErrKind::AwaitPingResp {
                        self.rep.probe("detected_by_keepalive_error");
                    }
                    if self.c18_second_life {
                        let k = self.k_ms();
                        tr!(self.rep, "{now} second life: the broker answers again");
                        self.rep.probe("c18_second_life");
                        self.cfg.c18 = C18Mode::Answer;
                        self.silent = false;
                        self.silent_t = None;
                        self.silent_at_ms = None;
                        self.writes_refused = false;
                        self.end_ms = now + 6 * k + 50;
                        return;
                    }
                } else {
                    self.rep.probe("c18_unexpected_error");
                }
                self.c18_done = true;
            }
            C18Mode::NoConnAck | C18Mode::PartialConnAck | C18Mode::HangConnect => {
                let ct = self.cfg.conn_timeout_s * 1000;
                let mode = format!("{:?}", self.cfg.c18).to_lowercase();
                self.detected = true;
                if e.kind != ErrKind::ConnectTimeout {
                    self.violate(
                        format!("connect_timeout_wrong_error:{mode}"),
                        format!("the handshake that never completes ended with {} instead of a timeout", e.text),
                    );
                } else if now + TOL_MS < ct || now > ct + TOL_MS {
                    self.violate(
                        format!("connect_timeout_wrong_time:{mode}"),
                        format!("the connect timeout fired at {now} ms, connection_timeout is {ct} ms"),
                    );
                } else {
                    self.rep.probe("connect_timeout_on_time");
                }
                self.c18_done = true;
            }
            C18Mode::Zero => {
                self.rep.probe("c18_unexpected_error");
                self.c18_done = true;
            }
            C18Mode::Off => {}
        }
    }

    pub fn c18_finish(&mut self) {
        let pings: u32 = self.conns.iter().map(|c| c.pings).sum();
        self.rep.nontrivial = match self.cfg.c18 {
            C18Mode::Answer => pings >= 19 || (self.detected && pings >= 4) || ((self.c18_busy || self.c18_gap) && pings >= 3),
            C18Mode::Silent | C18Mode::SilentHalfOpen | C18Mode::SilentStalled => self.detected,
            C18Mode::Zero => self.now_ms() >= 600_000,
            _ => self.detected,
        };
        if self.cfg.c18 == C18Mode::Answer && pings >= 19 {
            self.rep.probe("twenty_intervals_without_alarm");
        }
        if self.cfg.c18 == C18Mode::Zero && self.now_ms() >= 600_000 {
            self.rep.probe("ten_minutes_without_ping");
        }
        let _ = OwedKind::PingResp;
    }
}
