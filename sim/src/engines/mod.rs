pub mod logsim;
pub mod routersim;
