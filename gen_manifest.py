#!/usr/bin/env python3
"""Regenerates MANIFEST.json from the table below (kept next to DESIGN.md section 0)."""
import json, subprocess

ROUTER_NOTE = "Trusted: the reference broker model (spec.rs: acceptance-order log, per-subscription expected streams, MQTT matcher), the argument that single-threaded interleaving at buffer/channel granularity covers the threaded broker (DESIGN.md 1.1), release semantics (debug assertions off). The per-connection task is a link actor, not remote() itself (netsim runs the real one)."
CLAIMED = {
 # id: (engine, level, design_ref, text, note, technique)
 "C01": ("routersim", "exploration", "DESIGN.md 5.1, 6/C01",
   "Seeded search over client histories x router/link schedules x router configurations with the real Router::run_inner; every Forward drained by a client is attributed (subset construction over possible assignments) to the next expected element of one of its subscriptions in a reference model fed with the observed acceptance order; completeness checked at forced quiescence points; retention gaps excused only against the broker's own log head. Sampling, not proof.",
   ROUTER_NOTE, "deterministic simulation with seeded scheduler + reference model"),
 "C03": ("routersim", "exploration", "DESIGN.md 5.1, 6/C03",
   "Seeded search over histories with takeover, stale events, persistent sessions, shared groups, unknown-filter/multi-filter unsubscribes, wills; every router step under catch_unwind, no step may return an error, well-behaved connections may not be closed. Sampling, not proof.",
   ROUTER_NOTE, "deterministic simulation with fault injection (stale events, drops, takeover), panic oracle"),
 "C06": ("routersim", "exploration", "DESIGN.md 5.1, 6/C06",
   "Every DeviceAck drained from a connection is compared with a per-connection ledger of replies owed in request order (PUBACK/PUBREC/PUBCOMP/SUBACK codes/UNSUBACK/PINGRESP, PUBRELs separately), under seeded schedules that put requests into every pause state. Sampling, not proof.",
   ROUTER_NOTE, "deterministic simulation with seeded scheduler + request/ack ledger"),
 "C09": ("routersim", "exploration", "DESIGN.md 5.1, 6/C09",
   "Window invariants (<=100 awaiting ack, non-zero unique ids) checked on every forward from the client's side under backlogs up to several hundred messages and all ack pacings; no-lost-wakeup: at quiescence (acks and drains only, no new stimulus) the whole backlog has been delivered. Sampling, not proof.",
   ROUTER_NOTE, "deterministic simulation with seeded scheduler, invariants + bounded liveness at quiescence"),
 "C13": ("logsim", "exploration", "DESIGN.md 5.5, 6/C13",
   "Seeded search over histories of appends interleaved with reads by independent cursor holders (fresh, stale, tag, continuation, fabricated cursors) on seeded segment geometries, each read checked against a reference vector; sampling, not proof.",
   "Trusted: the reference vector, and append()/_head_and_tail() as the observation of what is retained. Single-threaded (the log is owned by the router thread).",
   "deterministic simulation (seeded histories, reference model)"),
}

NOT_APPLICABLE = {
 "C04": "pure function of one packet value (encode/decode round trip): no schedule, clock, fault or interleaving for a simulator to own; see DESIGN.md section 7",
 "C12": "pure function of two strings (topic/filter matching and validation): no schedule, clock, fault or interleaving; see DESIGN.md section 7",
}

PENDING_REASON = "not claimed yet: the simulation check for this property has not been built in this round (design in DESIGN.md section 6)"

props = [json.loads(l)["id"] for l in open("/verif/properties.jsonl")]
hooks = subprocess.run(["git","-C","/repo","log","--format=%H %s"],capture_output=True,text=True).stdout.splitlines()
hook_commits = [l.split()[0] for l in hooks if "verif hooks" in l]

checks = []
for pid in props:
    if pid in CLAIMED:
        eng, level, ref, text, note, tech = CLAIMED[pid]
        checks.append({
            "property_id": pid,
            "quick_cmd": f"./check {pid} quick",
            "thorough_cmd": f"./check {pid} thorough",
            "evidence_file": f"/verif/evidence/{pid}.json",
            "replay_cmd_template": "./check replay {path}",
            "engine": eng,
            "level_claimed": {"category": level, "text": text, "design_ref": ref},
            "level_note": note,
            "technique": tech,
        })
na = []
for pid in props:
    if pid in CLAIMED: continue
    na.append({"property_id": pid, "reason": NOT_APPLICABLE.get(pid, PENDING_REASON)})

engines = {}
for pid,(eng,*_) in CLAIMED.items():
    engines.setdefault(eng, []).append(pid)

manifest = {
 "version": 1,
 "setup_cmd": "./check build",
 "hooks": {
   "guard": "--cfg rumqtt_verif (rustc cfg flag; no Cargo feature)",
   "enable": "RUSTFLAGS via /verif/sim/.cargo/config.toml: --cfg rumqtt_verif --cfg tokio_unstable; rumqttd and rumqttc are path dependencies of /verif/sim, so every check rebuilds them from /repo's working tree",
   "baseline_off_cmd": "cd /repo && cargo test --workspace --no-fail-fast --offline",
   "source_commits": hook_commits,
   "add_only": True,
 },
 "engines": [{"name": e, "path": f"/verif/sim/src/engines/{e}.rs" if e in ("logsim","streamsim") else f"/verif/sim/src/engines/{e}", "serves_properties": sorted(p), "kind_free_text": "seeded deterministic simulator, single-threaded per run, 16 runs in parallel"} for e,p in sorted(engines.items())],
 "checks": checks,
 "not_applicable": na,
 "notes": "Exit codes: 0 held, 1 VIOLATION (with replay file), 2 harness/build error. VERIF_SEED selects the base seed (default 1). Known findings: /verif/KNOWN_FINDINGS.txt.",
}
json.dump(manifest, open("/verif/MANIFEST.json","w"), indent=1)
print("claimed:", sorted(CLAIMED), "not claimed:", [n["property_id"] for n in na])
