//! Thin version-neutral wrappers around the REAL rumqttc client handle and
//! event loop (v4 and v5). Nothing here re-implements client behaviour; the
//! wrappers only translate types and read the public state fields.

use super::proto::{self, Pk};
use rumqttc::Outgoing;
use std::time::Duration;

/// A request as found in `EventLoop::pending` / `MqttState::clean()` /
/// `MqttState::collision`.
#[derive(Clone, Debug, PartialEq, Eq)]
pub enum Rq {
    Publish {
        qos: u8,
        topic: String,
        pkid: u16,
        payload: Vec<u8>,
    },
    PubRel(u16),
    /// First filter of the subscription.
    Subscribe(String),
    /// First filter of the unsubscription.
    Unsubscribe(String),
    Other,
}

impl Rq {
    pub fn short(&self) -> String {
        match self {
            Rq::Publish {
                qos, pkid, payload, ..
            } => format!("pub(q{qos},id={pkid},{})", String::from_utf8_lossy(payload)),
            Rq::PubRel(p) => format!("rel({p})"),
            Rq::Subscribe(f) => format!("sub({f})"),
            Rq::Unsubscribe(f) => format!("unsub({f})"),
            Rq::Other => "other".into(),
        }
    }
}

fn rq4(r: &rumqttc::Request) -> Rq {
    match r {
        rumqttc::Request::Publish(p) => match proto::from_v4_publish(p) {
            Pk::Publish {
                qos,
                topic,
                pkid,
                payload,
                ..
            } => Rq::Publish {
                qos,
                topic,
                pkid,
                payload,
            },
            _ => Rq::Other,
        },
        rumqttc::Request::PubRel(r) => Rq::PubRel(r.pkid),
        rumqttc::Request::Subscribe(x) => Rq::Subscribe(x.filters.first().map(|f| f.path.clone()).unwrap_or_default()),
        rumqttc::Request::Unsubscribe(x) => Rq::Unsubscribe(x.topics.first().cloned().unwrap_or_default()),
        _ => Rq::Other,
    }
}

fn rq5(r: &rumqttc::v5::Request) -> Rq {
    match r {
        rumqttc::v5::Request::Publish(p) => match proto::from_v5_publish(p) {
            Pk::Publish {
                qos,
                topic,
                pkid,
                payload,
                ..
            } => Rq::Publish {
                qos,
                topic,
                pkid,
                payload,
            },
            _ => Rq::Other,
        },
        rumqttc::v5::Request::PubRel(r) => Rq::PubRel(r.pkid),
        rumqttc::v5::Request::Subscribe(x) => Rq::Subscribe(x.filters.first().map(|f| f.path.clone()).unwrap_or_default()),
        rumqttc::v5::Request::Unsubscribe(x) => Rq::Unsubscribe(x.filters.first().cloned().unwrap_or_default()),
        _ => Rq::Other,
    }
}

#[derive(Clone, Debug, PartialEq, Eq)]
pub enum Ev {
    In(Pk),
    Out(Outgoing),
}

#[derive(Clone, Debug, PartialEq, Eq)]
pub enum ErrKind {
    Unsolicited(u16),
    AwaitPingResp,
    CollisionTimeout,
    ConnectionAborted,
    WrongPacket,
    ServerDisconnect,
    Deserialization,
    StateIo,
    StateOther,
    /// v4 NetworkTimeout / v5 Timeout(Elapsed): the connect phase timed out.
    ConnectTimeout,
    FlushTimeout,
    Io,
    Refused,
    NotConnAck,
    RequestsDone,
}

impl ErrKind {
    pub fn is_state(&self) -> bool {
        matches!(
            self,
            ErrKind::Unsolicited(_)
                | ErrKind::AwaitPingResp
                | ErrKind::CollisionTimeout
                | ErrKind::ConnectionAborted
                | ErrKind::WrongPacket
                | ErrKind::ServerDisconnect
                | ErrKind::Deserialization
                | ErrKind::StateIo
                | ErrKind::StateOther
        )
    }
}

#[derive(Clone, Debug)]
pub struct PErr {
    pub kind: ErrKind,
    pub text: String,
}

fn err4(e: rumqttc::ConnectionError) -> PErr {
    use rumqttc::{ConnectionError as C, StateError as S};
    let text = format!("{e:?}");
    let kind = match &e {
        C::MqttState(s) => match s {
            S::Unsolicited(p) => ErrKind::Unsolicited(*p),
            S::AwaitPingResp => ErrKind::AwaitPingResp,
            S::CollisionTimeout => ErrKind::CollisionTimeout,
            S::ConnectionAborted => ErrKind::ConnectionAborted,
            S::WrongPacket => ErrKind::WrongPacket,
            S::Deserialization(_) => ErrKind::Deserialization,
            S::Io(_) => ErrKind::StateIo,
            _ => ErrKind::StateOther,
        },
        C::NetworkTimeout => ErrKind::ConnectTimeout,
        C::FlushTimeout => ErrKind::FlushTimeout,
        C::Io(_) => ErrKind::Io,
        C::ConnectionRefused(_) => ErrKind::Refused,
        C::NotConnAck(_) => ErrKind::NotConnAck,
        C::RequestsDone => ErrKind::RequestsDone,
    };
    PErr { kind, text }
}

fn err5(e: rumqttc::v5::ConnectionError) -> PErr {
    use rumqttc::v5::{ConnectionError as C, StateError as S};
    let text = format!("{e:?}");
    let kind = match &e {
        C::MqttState(s) => match s {
            S::Unsolicited(p) => ErrKind::Unsolicited(*p),
            S::AwaitPingResp => ErrKind::AwaitPingResp,
            S::CollisionTimeout => ErrKind::CollisionTimeout,
            S::ConnectionAborted => ErrKind::ConnectionAborted,
            S::WrongPacket => ErrKind::WrongPacket,
            S::ServerDisconnect { .. } => ErrKind::ServerDisconnect,
            S::Deserialization(_) => ErrKind::Deserialization,
            S::Io(_) => ErrKind::StateIo,
            _ => ErrKind::StateOther,
        },
        C::Timeout(_) => ErrKind::ConnectTimeout,
        C::Io(_) => ErrKind::Io,
        C::ConnectionRefused(_) => ErrKind::Refused,
        C::NotConnAck(_) => ErrKind::NotConnAck,
        C::RequestsDone => ErrKind::RequestsDone,
    };
    PErr { kind, text }
}

pub struct Opts {
    pub v5: bool,
    pub limit: u16,
    pub cap: usize,
    pub keep_alive_s: u64,
    pub conn_timeout_s: u64,
    pub manual_acks: bool,
    pub throttle_us: u64,
}

pub enum Handle {
    V4(rumqttc::AsyncClient),
    V5(rumqttc::v5::AsyncClient),
}

pub enum Loop {
    V4(Box<rumqttc::EventLoop>),
    V5(Box<rumqttc::v5::EventLoop>),
}

pub fn make(o: &Opts) -> (Handle, Loop) {
    if o.v5 {
        let mut m = rumqttc::v5::MqttOptions::new("sim", "simnet", 1883);
        if o.keep_alive_s != 60 {
            m.set_keep_alive(Duration::from_secs(o.keep_alive_s));
        }
        m.set_clean_start(false);
        m.set_connection_timeout(o.conn_timeout_s);
        m.set_manual_acks(o.manual_acks);
        m.set_outgoing_inflight_upper_limit(o.limit);
        m.set_pending_throttle(Duration::from_micros(o.throttle_us));
        let (c, e) = rumqttc::v5::AsyncClient::new(m, o.cap);
        (Handle::V5(c), Loop::V5(Box::new(e)))
    } else {
        let mut m = rumqttc::MqttOptions::new("sim", "simnet", 1883);
        m.set_keep_alive(Duration::from_secs(o.keep_alive_s));
        m.set_clean_session(false);
        m.set_manual_acks(o.manual_acks);
        m.set_inflight(o.limit);
        m.set_pending_throttle(Duration::from_micros(o.throttle_us));
        let (c, mut e) = rumqttc::AsyncClient::new(m, o.cap);
        let mut n = rumqttc::NetworkOptions::new();
        n.set_connection_timeout(o.conn_timeout_s);
        e.set_network_options(n);
        (Handle::V4(c), Loop::V4(Box::new(e)))
    }
}

impl Handle {
    /// `true` if the request entered the channel.
    pub fn try_publish(&self, topic: &str, qos: u8, payload: &[u8]) -> bool {
        match self {
            Handle::V4(c) => c
                .try_publish(topic, proto::to_q4(qos), false, payload.to_vec())
                .is_ok(),
            Handle::V5(c) => c
                .try_publish(topic, proto::to_q5(qos), false, payload.to_vec())
                .is_ok(),
        }
    }

    pub fn try_subscribe(&self, filter: &str, qos: u8) -> bool {
        match self {
            Handle::V4(c) => c.try_subscribe(filter, proto::to_q4(qos)).is_ok(),
            Handle::V5(c) => c.try_subscribe(filter, proto::to_q5(qos)).is_ok(),
        }
    }

    pub fn try_unsubscribe(&self, filter: &str) -> bool {
        match self {
            Handle::V4(c) => c.try_unsubscribe(filter).is_ok(),
            Handle::V5(c) => c.try_unsubscribe(filter).is_ok(),
        }
    }

    /// Manual acknowledgement of a received publish (neutral form).
    pub fn try_ack(&self, p: &Pk) -> bool {
        match self {
            Handle::V4(c) => match proto::to_v4(p) {
                Some(rumqttc::Packet::Publish(x)) => c.try_ack(&x).is_ok(),
                _ => false,
            },
            Handle::V5(c) => match proto::to_v5(p) {
                Some(rumqttc::v5::mqttbytes::v5::Packet::Publish(x)) => c.try_ack(&x).is_ok(),
                _ => false,
            },
        }
    }
}

/// What the harness reads from the event loop between two polls.
#[derive(Clone, Debug, Default)]
pub struct Snapshot {
    /// `state.clone().clean()`
    pub retrans: Vec<Rq>,
    pub pending: Vec<Rq>,
    pub collision: Option<Rq>,
    pub inflight: u16,
    /// `state.events`, in order.
    pub queued: Vec<Ev>,
}

impl Loop {
    pub async fn poll(&mut self) -> Result<Ev, PErr> {
        match self {
            Loop::V4(e) => match e.poll().await {
                Ok(rumqttc::Event::Incoming(p)) => Ok(Ev::In(proto::from_v4(&p))),
                Ok(rumqttc::Event::Outgoing(o)) => Ok(Ev::Out(o)),
                Err(e) => Err(err4(e)),
            },
            Loop::V5(e) => match e.poll().await {
                Ok(rumqttc::v5::Event::Incoming(p)) => Ok(Ev::In(proto::from_v5(&p))),
                Ok(rumqttc::v5::Event::Outgoing(o)) => Ok(Ev::Out(o)),
                Err(e) => Err(err5(e)),
            },
        }
    }

    /// `full = false` skips the clone of the state (for huge inflight limits
    /// the id table is several MB).
    pub fn snapshot(&self, full: bool) -> Snapshot {
        match self {
            Loop::V4(e) => Snapshot {
                retrans: if full {
                    // the parked publish is read separately below, whether or
                    // not `clean()` hands it back too
                    let mut st = e.state.clone();
                    st.collision = None;
                    st.clean().iter().map(rq4).collect()
                } else {
                    Vec::new()
                },
                pending: e.pending.iter().map(rq4).collect(),
                collision: e
                    .state
                    .collision
                    .as_ref()
                    .map(|p| rq4(&rumqttc::Request::Publish(p.clone()))),
                inflight: e.state.inflight(),
                queued: e
                    .state
                    .events
                    .iter()
                    .map(|ev| match ev {
                        rumqttc::Event::Incoming(p) => Ev::In(proto::from_v4(p)),
                        rumqttc::Event::Outgoing(o) => Ev::Out(o.clone()),
                    })
                    .collect(),
            },
            Loop::V5(e) => Snapshot {
                retrans: if full {
                    // the parked publish is read separately below, whether or
                    // not `clean()` hands it back too
                    let mut st = e.state.clone();
                    st.collision = None;
                    st.clean().iter().map(rq5).collect()
                } else {
                    Vec::new()
                },
                pending: e.pending.iter().map(rq5).collect(),
                collision: e
                    .state
                    .collision
                    .as_ref()
                    .map(|p| rq5(&rumqttc::v5::Request::Publish(p.clone()))),
                inflight: e.state.inflight(),
                queued: e
                    .state
                    .events
                    .iter()
                    .map(|ev| match ev {
                        rumqttc::v5::Event::Incoming(p) => Ev::In(proto::from_v5(p)),
                        rumqttc::v5::Event::Outgoing(o) => Ev::Out(o.clone()),
                    })
                    .collect(),
            },
        }
    }
}
