//! World of one routersim run: clients, link actors, scheduler, oracles.

use super::spec::*;
use super::P;
use crate::choices::Choices;
use crate::core::{guarded, Outcome, RunReport, Tier, Violation};
use crate::tr;
use bytes::Bytes;
use rumqttd::local::{LinkBuilder, LinkRx, LinkTx, VerifFinish, VerifPendingLink};
use rumqttd::protocol as pr;
use rumqttd::verif::{self as hook, Ack, Event, Site};
use rumqttd::{ConnectionId, Notification, Router, RouterConfig, Strategy};
use std::cell::RefCell;
use std::collections::VecDeque;
use std::rc::Rc;

// ---------------------------------------------------------------------------
// Configuration of one run (swarm)
// ---------------------------------------------------------------------------

#[derive(Debug, Clone)]
pub struct RunCfg {
    pub n_clients: usize,
    pub max_steps: u32,
    pub max_connections: usize,
    pub max_outgoing: u64,
    pub seg_size: usize,
    pub seg_count: usize,
    pub strategy: u8,
    pub topics: Vec<&'static str>,
    pub filters: Vec<&'static str>,
    // weights of client actions
    pub w_sub: u32,
    pub w_unsub: u32,
    pub w_pub: u32,
    pub w_ping: u32,
    pub w_disc_pkt: u32,
    pub w_drop: u32,
    pub w_router: u32,
    pub w_burst: u32,
    pub big_burst: bool,
    pub qos_mix: [u32; 3],
    pub sub_qos_mix: [u32; 3],
    pub yield_den: u32,
    pub yield_budget: u32,
    pub unsub_unknown: bool,
    pub unsub_multi: bool,
    pub sub_multi: bool,
    pub resub: bool,
    pub resub_qos_change: bool,
    pub retained: bool,
    pub empty_payload: bool,
    pub shared: bool,
    pub persistent: bool,
    pub takeover: bool,
    pub stale_events: bool,
    pub wills: bool,
    pub rogue: bool,
    pub sub_ids: bool,
    pub mid_quiesce: bool,
    pub same_batch_bias: bool,
    pub immediate_notify: u32, // n/4
    /// C17: clients 0..members are group members (shared subscriptions
    /// only, group name tied to the filter), the rest are outsiders.
    pub members: usize,
    pub will_once: bool,
    /// Clients 0..good_clients obey the protocol; the rest are rogues (if `rogue`).
    pub good_clients: usize,
    pub shadow_events: bool,
    /// Stale Disconnect / Shadow events may also be emitted after the slot was
    /// given to a later connection (the two open findings of C03 / C14); off in
    /// most runs so that those runs are explored to their end.
    pub stale_on_reused: bool,
    pub alternate_clean: bool,
    /// Some clients use MQTT 5 forms of packets (properties present).
    pub v5_packets: bool,
}

const TOPICS: &[&str] = &["a/b", "a/c", "a/b/c", "d", "x/y/z", "$SYS/x", "\u{e9}t\u{e9}/b", "a/\u{4e16}"];
const FILTERS: &[&str] = &["a/b", "a/+", "a/#", "#", "+/b", "d", "+/+/+", "x/#", "\u{e9}t\u{e9}/+", "a/b/c"];

impl RunCfg {
    pub fn draw(prop: P, tier: Tier, ch: &mut Choices) -> RunCfg {
        let n_clients = match prop {
            P::C09 => ch.range(2, 4),
            P::C17 => ch.range(3, 6),
            _ => ch.range(1, 5),
        } as usize;
        // the thorough tier also draws longer histories
        let max_steps = match tier {
            Tier::Quick => *ch.choose(&[30u32, 80, 150, 250, 400]),
            Tier::Thorough => *ch.choose(&[30u32, 80, 150, 250, 400, 700, 1200]),
        };
        let small_retention = ch.coin(1, 5);
        let seg_size = if small_retention { 1024 } else { 64 * 1024 * 1024 };
        let seg_count = if small_retention { ch.range(1, 3) as usize } else { 10 };
        // topic pool: 2..=6 topics, ASCII unless the run asks for more
        let nt = ch.range(2, 6) as usize;
        let unicode = ch.coin(1, 6);
        let dollar = ch.coin(1, 5);
        let mut topics = Vec::new();
        for t in TOPICS.iter() {
            if topics.len() >= nt {
                break;
            }
            if !t.is_ascii() && !unicode {
                continue;
            }
            if t.starts_with('$') && !dollar {
                continue;
            }
            topics.push(*t);
        }
        if unicode {
            // make sure a unicode topic is really in the pool (not first char for non-C03)
            topics.push("a/\u{4e16}");
        }
        let nf = ch.range(1, 6) as usize;
        let mut filters = Vec::new();
        let start = ch.pick(FILTERS.len() as u32) as usize;
        for i in 0..FILTERS.len() {
            if filters.len() >= nf {
                break;
            }
            let f = FILTERS[(start + i) % FILTERS.len()];
            if !f.is_ascii() && !unicode {
                continue;
            }
            filters.push(f);
        }
        let mut cfg = RunCfg {
            n_clients,
            max_steps,
            max_connections: 10,
            max_outgoing: *ch.choose(&[1u64, 2, 5, 50, 200]),
            seg_size,
            seg_count,
            strategy: ch.pick(3) as u8,
            topics,
            filters,
            w_sub: ch.range(1, 4),
            w_unsub: ch.pick(3),
            w_pub: ch.range(2, 8),
            w_ping: ch.pick(2),
            w_disc_pkt: ch.pick(2),
            w_drop: ch.pick(2),
            w_router: ch.range(2, 10),
            w_burst: ch.pick(3),
            big_burst: ch.coin(1, 10),
            qos_mix: [ch.pick(4), ch.pick(4), ch.pick(3)],
            sub_qos_mix: [ch.pick(4), ch.pick(4), ch.pick(3)],
            yield_den: *ch.choose(&[2u32, 4, 8, 1000]),
            yield_budget: 60,
            unsub_unknown: false,
            unsub_multi: false,
            sub_multi: ch.coin(1, 2),
            resub: ch.coin(1, 3),
            resub_qos_change: false,
            retained: false,
            empty_payload: false,
            shared: false,
            persistent: false,
            takeover: false,
            stale_events: false,
            wills: false,
            rogue: false,
            sub_ids: false,
            mid_quiesce: ch.coin(1, 3),
            same_batch_bias: ch.coin(1, 3),
            immediate_notify: ch.range(1, 4),
            members: 0,
            will_once: false,
            good_clients: n_clients,
            shadow_events: false,
            stale_on_reused: true,
            alternate_clean: false,
            v5_packets: false,
        };
        if cfg.qos_mix.iter().all(|w| *w == 0) {
            cfg.qos_mix[1] = 1;
        }
        if cfg.sub_qos_mix.iter().all(|w| *w == 0) {
            cfg.sub_qos_mix[1] = 1;
        }
        match prop {
            P::C01 => {
                cfg.resub_qos_change = ch.coin(1, 4);
                cfg.sub_ids = ch.coin(1, 4);
            }
            P::C06 => {
                cfg.v5_packets = ch.coin(1, 3);
                cfg.unsub_unknown = ch.coin(1, 3);
                cfg.unsub_multi = ch.coin(1, 3);
                cfg.w_ping = ch.range(0, 2);
                cfg.w_unsub = ch.range(0, 3);
            }
            P::C09 => {
                cfg.w_unsub = 0;
                cfg.w_disc_pkt = 0;
                cfg.w_drop = 0;
                cfg.w_pub = ch.range(4, 10);
                cfg.w_burst = ch.range(1, 4);
                cfg.big_burst = ch.coin(1, 3);
                // retained replays take window slots too
                cfg.retained = ch.coin(1, 3);
                // "an acknowledgement the broker did not solicit closes that connection
                // only": in a third of the runs one or two further clients misbehave
                if ch.coin(1, 3) {
                    cfg.rogue = true;
                    cfg.good_clients = cfg.n_clients;
                    cfg.n_clients += ch.range(1, 2) as usize;
                    cfg.max_connections = cfg.max_connections.max(cfg.n_clients + 1);
                }
                if cfg.sub_qos_mix[1] + cfg.sub_qos_mix[2] == 0 {
                    cfg.sub_qos_mix[1] = 2;
                }
            }
            P::C08 => {
                let pool = ["a/+", "d", "x/#", "a/b/c"];
                let k = ch.range(1, 3) as usize;
                let start = ch.pick(4) as usize;
                cfg.filters = (0..k).map(|i| pool[(start + i) % 4]).collect();
                cfg.topics = vec!["a/b", "d", "x/y/z", "a/b/c", "a/c"];
                cfg.topics.truncate(ch.range(2, 5) as usize);
                cfg.n_clients = ch.range(2, 4) as usize;
                cfg.max_steps = *ch.choose(&[30u32, 60, 100, 150]);
                cfg.persistent = true;
                // retained replays occupy window slots too (cursor-less inflight entries)
                cfg.retained = ch.coin(1, 3);
                cfg.alternate_clean = ch.coin(1, 3);
                cfg.resub = false;
                cfg.w_unsub = ch.pick(2);
                cfg.w_drop = 0;
                cfg.w_disc_pkt = 0;
                cfg.big_burst = false;
                cfg.mid_quiesce = false;
                if cfg.sub_qos_mix[1] + cfg.sub_qos_mix[2] == 0 {
                    cfg.sub_qos_mix[1] = 2;
                }
            }
            P::C15 => {
                cfg.mid_quiesce = ch.coin(2, 3);
                cfg.retained = true;
                cfg.empty_payload = ch.coin(1, 2);
                cfg.resub = ch.coin(1, 2);
                cfg.w_sub = ch.range(2, 5);
                cfg.w_unsub = ch.range(0, 2);
                cfg.shared = ch.coin(1, 4);
                cfg.wills = ch.coin(1, 4);
                cfg.big_burst = false;
                cfg.w_burst = ch.pick(2);
            }
            P::C16 => {
                cfg.wills = true;
                cfg.will_once = true;
                cfg.w_drop = ch.range(1, 3);
                cfg.w_disc_pkt = ch.range(1, 3);
                cfg.retained = ch.coin(1, 3);
                cfg.big_burst = false;
            }
            P::C17 => {
                // members' shared filters must not overlap each other, or a
                // forward could belong to two groups of the same member
                let pool = ["a/+", "d", "x/#", "a/b/c"];
                let k = ch.range(1, 4) as usize;
                let start = ch.pick(4) as usize;
                cfg.filters = (0..k).map(|i| pool[(start + i) % 4]).collect();
                cfg.topics = vec!["a/b", "a/c", "d", "x/y/z", "a/b/c"];
                cfg.topics.truncate(ch.range(2, 5) as usize);
                cfg.shared = true;
                cfg.members = ch.range(2, 4).min(cfg.n_clients as u32) as usize;
                cfg.w_pub = ch.range(3, 9);
                cfg.w_burst = ch.range(0, 3);
                cfg.w_unsub = ch.range(0, 2);
                cfg.w_drop = ch.pick(2);
                cfg.w_disc_pkt = ch.pick(2);
                // a member may repeat its SUBSCRIBE (same QoS): the broker lists
                // it once more in the group, it must still leave completely
                cfg.resub = ch.coin(1, 3);
                // a member that withholds its acks must be able to fill its window
                cfg.big_burst = ch.coin(1, 4);
            }
            P::C03 => {
                cfg.rogue = true;
                cfg.stale_events = ch.coin(2, 3);
                cfg.takeover = ch.coin(1, 2);
                cfg.persistent = ch.coin(1, 2);
                cfg.shared = ch.coin(1, 2);
                cfg.unsub_unknown = true;
                cfg.unsub_multi = true;
                cfg.retained = ch.coin(1, 2);
                cfg.empty_payload = ch.coin(1, 2);
                cfg.wills = ch.coin(1, 2);
                cfg.n_clients = ch.range(2, 6) as usize;
                cfg.good_clients = ch.range(1, 2) as usize;
                cfg.shadow_events = ch.coin(1, 4);
                cfg.stale_on_reused = ch.coin(1, 8);
                cfg.max_connections = cfg.n_clients + ch.pick(3) as usize;
                cfg.w_drop = ch.range(0, 3);
            }
            P::C14 => {
                cfg.rogue = true;
                cfg.n_clients = ch.range(3, 6) as usize;
                cfg.good_clients = 2;
                cfg.shared = ch.coin(1, 2);
                cfg.shadow_events = ch.coin(1, 6);
                cfg.stale_events = ch.coin(2, 3);
                cfg.stale_on_reused = ch.coin(1, 8);
                cfg.max_connections = cfg.n_clients + 2;
                cfg.w_drop = ch.range(1, 3);
                cfg.w_disc_pkt = ch.range(0, 2);
                cfg.w_unsub = ch.pick(2);
                cfg.resub = false;
            }
            _ => {}
        }
        if cfg.empty_payload && !matches!(prop, P::C03) {
            // empty payloads are not unique, so a skipped element cannot be
            // told from a delivered one: no retention gaps in such runs
            cfg.seg_size = 64 * 1024 * 1024;
            cfg.seg_count = 10;
        }
        cfg
    }
}

// ---------------------------------------------------------------------------
// Clients and links
// ---------------------------------------------------------------------------

#[derive(Debug, Clone, Copy, PartialEq, Eq)]
enum Pace {
    Eager,
    Lazy,
    Burst(u32),
    Withhold,
}

#[derive(Debug, Clone, Copy, PartialEq, Eq)]
enum Owed {
    PubAck(u16),
    PubRec(u16),
}

struct Client {
    id: String,
    clean: bool,
    link: Option<usize>,
    next_pkid: u16,
    pace: Pace,
    /// Own publishes awaiting PUBACK / PUBREC / PUBCOMP (bookkeeping only).
    out_unacked: u32,
    connects: u32,
    has_will: bool,
    subscribed: Vec<String>,
    /// Deliberately violates the protocol (C03 / C14 only).
    rogue: bool,
    /// Never reads what the broker sends (slow / stalled consumer).
    stalled: bool,
}

#[derive(PartialEq, Eq, Debug, Clone, Copy)]
enum LState {
    Pending,
    Up,
    Ended,
}

struct Link {
    client: usize,
    state: LState,
    pending: Option<VerifPendingLink>,
    tx: Option<LinkTx>,
    rx: Option<LinkRx>,
    conn_id: Option<ConnectionId>,
    /// Spec connection index once the broker handled the Connect event.
    conn: Option<usize>,
    refused_expected: Option<&'static str>,
    shadow: VecDeque<SimPkt>,
    unnotified: u32,
    ready_owed: u32,
    /// Forwards (QoS>0) drained and not yet acknowledged by the client model.
    awaiting: VecDeque<(u16, Option<(String, usize)>)>,
    got_router_disconnect: bool,
    will_pending: bool,
    forwards_seen: u32,
    /// PUBACK / PUBREC owed for forwards received on this link, in arrival order.
    owed_ack: VecDeque<Owed>,
    /// PUBCOMP owed for broker PUBRELs, in arrival order.
    owed_comp: VecDeque<u16>,
    /// PUBRELs to send for own QoS 2 publishes (after the broker's PUBREC).
    out_rel: VecDeque<u16>,
    /// Receiver half kept after the link ended, only to read what the router
    /// still pushed into the (now unread) outgoing buffer.
    dead_rx: Option<LinkRx>,
    qos_forwards: u32,
    stale_budget: u32,
    /// A packet that certainly makes the broker close this connection has
    /// been pushed: the client sends nothing after it (what a broker does
    /// with packets that follow a protocol violation in the same batch is
    /// not covered by any statement).
    poisoned: bool,
    qos2_unreleased: u32,
    /// Every forward seen on this link, in push order (incl. those the model
    /// read out of the buffer when the connection was closed).
    fw_log: Vec<FwRec>,
    /// Retained forwards (retain=1) seen on this link.
    ret_fw: Vec<RetFw>,
    /// Number of forwards that were attributed virtually at close time and
    /// must not be attributed again when the link really drains them.
    clean: bool,
}

#[derive(Clone, Debug)]
struct RetFw {
    topic: String,
    payload: Vec<u8>,
    qos: u8,
    #[allow(dead_code)]
    seen_at: usize,
}

#[derive(Clone, Debug)]
struct FwRec {
    qos: u8,
    retained: bool,
    at: Option<(usize, usize)>,
}

pub struct World {
    prop: P,
    cfg: RunCfg,
    ch: Choices,
    rep: RunReport,
    router_tx: flume::Sender<(ConnectionId, Event)>,
    links: Vec<Link>,
    clients: Vec<Client>,
    spec: Spec,
    evq: VecDeque<(usize, u8)>,
    pending_obs: Option<usize>,
    violation: Option<Violation>,
    foreign: Option<String>,
    yield_budget: u32,
    /// The last quiescence loop ended at its round cap, not at a fixpoint.
    quiesce_incomplete: bool,
    quiescing: bool,
    next_seq: u32,
    router_blocked: bool,
    sub_id_counter: usize,
    forwards_total: u32,
    link_wills: Vec<(usize, Option<Will>)>,
    abandoned: Vec<usize>,
    last_attr: Option<(usize, usize)>,
    meter_rx: Vec<flume::Receiver<Vec<rumqttd::Meter>>>,
    alert_rx: Vec<flume::Receiver<Vec<rumqttd::Alert>>>,
}

fn qos_of(q: u8) -> pr::QoS {
    match q {
        0 => pr::QoS::AtMostOnce,
        1 => pr::QoS::AtLeastOnce,
        _ => pr::QoS::ExactlyOnce,
    }
}

fn qos_num(q: pr::QoS) -> u8 {
    match q {
        pr::QoS::AtMostOnce => 0,
        pr::QoS::AtLeastOnce => 1,
        pr::QoS::ExactlyOnce => 2,
    }
}

fn to_packet(p: &SimPkt) -> pr::Packet {
    match p {
        SimPkt::Publish {
            topic,
            payload,
            qos,
            pkid,
            retain,
        } => pr::Packet::Publish(
            pr::Publish::verif_new(
                Bytes::from(topic.clone()),
                Bytes::from(payload.clone()),
                qos_of(*qos),
                *pkid,
                *retain,
                false,
            ),
            // every other retained publish comes from an MQTT 5 publisher and carries
            // properties (no expiry): it is retained and replayed like any other
            // (decided by the payload, not by a choice)
            if *retain && payload.last().map_or(false, |b| b % 2 == 1) {
                Some(pr::PublishProperties {
                    user_properties: vec![("k".to_string(), "v".to_string())],
                    content_type: Some("text/plain".to_string()),
                    ..Default::default()
                })
            } else {
                None
            },
        ),
        SimPkt::Subscribe {
            pkid,
            filters,
            sub_id,
        } => pr::Packet::Subscribe(
            pr::Subscribe {
                pkid: *pkid,
                filters: filters
                    .iter()
                    .map(|(path, q)| pr::Filter {
                        path: path.clone(),
                        qos: qos_of(*q),
                        nolocal: false,
                        preserve_retain: false,
                        retain_forward_rule: pr::RetainForwardRule::Never,
                    })
                    .collect(),
            },
            sub_id.map(|id| pr::SubscribeProperties {
                id: Some(id),
                user_properties: vec![],
            }),
        ),
        SimPkt::Unsubscribe { pkid, filters } => pr::Packet::Unsubscribe(
            pr::Unsubscribe {
                pkid: *pkid,
                filters: filters.clone(),
            },
            None,
        ),
        SimPkt::PubAck(p) => pr::Packet::PubAck(
            pr::PubAck {
                pkid: *p,
                reason: pr::PubAckReason::Success,
            },
            None,
        ),
        SimPkt::PubRec(p) => pr::Packet::PubRec(
            pr::PubRec {
                pkid: *p,
                reason: pr::PubRecReason::Success,
            },
            None,
        ),
        SimPkt::PubRel(p) => pr::Packet::PubRel(
            pr::PubRel {
                pkid: *p,
                reason: pr::PubRelReason::Success,
            },
            None,
        ),
        SimPkt::PubRelProps(p) => pr::Packet::PubRel(
            pr::PubRel {
                pkid: *p,
                reason: pr::PubRelReason::Success,
            },
            Some(pr::PubRelProperties {
                reason_string: None,
                user_properties: vec![("k".to_string(), "v".to_string())],
            }),
        ),
        SimPkt::PubComp(p) => pr::Packet::PubComp(
            pr::PubComp {
                pkid: *p,
                reason: pr::PubCompReason::Success,
            },
            None,
        ),
        SimPkt::PingReq => pr::Packet::PingReq(pr::PingReq),
        SimPkt::Disconnect => pr::Packet::Disconnect(
            pr::Disconnect {
                reason_code: pr::DisconnectReasonCode::NormalDisconnection,
            },
            None,
        ),
        SimPkt::Ignored(kind) => match *kind {
            "connack" => pr::Packet::ConnAck(
                pr::ConnAck {
                    session_present: false,
                    code: pr::ConnectReturnCode::Success,
                },
                None,
            ),
            "suback" => pr::Packet::SubAck(
                pr::SubAck {
                    pkid: 1,
                    return_codes: vec![pr::SubscribeReasonCode::QoS0],
                },
                None,
            ),
            "unsuback" => pr::Packet::UnsubAck(
                pr::UnsubAck {
                    pkid: 1,
                    reasons: vec![],
                },
                None,
            ),
            "connect" => pr::Packet::Connect(
                pr::Connect {
                    keep_alive: 10,
                    client_id: "again".to_string(),
                    clean_session: true,
                },
                None,
                None,
                None,
                None,
            ),
            _ => pr::Packet::PingResp(pr::PingResp),
        },
        SimPkt::BadAck(kind, p) => match kind {
            0 => pr::Packet::PubAck(
                pr::PubAck {
                    pkid: *p,
                    reason: pr::PubAckReason::Success,
                },
                None,
            ),
            1 => pr::Packet::PubRec(
                pr::PubRec {
                    pkid: *p,
                    reason: pr::PubRecReason::Success,
                },
                None,
            ),
            _ => pr::Packet::PubComp(
                pr::PubComp {
                    pkid: *p,
                    reason: pr::PubCompReason::Success,
                },
                None,
            ),
        },
        SimPkt::PublishV5 {
            topic,
            payload,
            qos,
            pkid,
            retain,
            alias,
            sub_ids,
        } => pr::Packet::Publish(
            pr::Publish::verif_new(
                Bytes::from(topic.clone()),
                Bytes::from(payload.clone()),
                qos_of(*qos),
                *pkid,
                *retain,
                false,
            ),
            Some(pr::PublishProperties {
                topic_alias: *alias,
                subscription_identifiers: if *sub_ids { vec![7] } else { vec![] },
                user_properties: vec![("k".to_string(), "v".to_string())],
                ..Default::default()
            }),
        ),
    }
}

#[derive(Debug, Clone, Copy, PartialEq, Eq)]
enum Act {
    Connect(usize),
    Finish(usize),
    Drain(usize),
    Notify(usize),
    Ready(usize),
    Ack(usize),
    Rel(usize),
    Comp(usize),
    Sub(usize),
    Unsub(usize),
    Pub(usize),
    Burst(usize),
    Ping(usize),
    DiscPkt(usize),
    Drop(usize),
    Will(usize),
    Rogue(usize),
    Shadow(usize),
    Tick,
    StaleNotify(usize),
    StaleReady(usize),
}

impl World {
    fn viol(&mut self, class: impl Into<String>, message: impl Into<String>) {
        if self.violation.is_none() {
            let class = class.into();
            let message = message.into();
            tr!(self.rep, "VIOLATION [{class}] {message}");
            self.violation = Some(Violation {
                property: self.prop.id(),
                class,
                message,
            });
        }
    }

    /// Delivery-exactness rules (C01's oracle): a violation under the
    /// properties that include them, a foreign abort elsewhere.
    fn c01_viol(&mut self, class: impl Into<String>, message: impl Into<String>) {
        let class: String = class.into();
        let message: String = message.into();
        if self.prop == P::C16 {
            // only will messages (payload w<n>) are this property's business
            if message.contains("/w") || message.contains("payload=w") {
                let class = match class.as_str() {
                    "forward_unknown_message" => "will_published_unexpectedly".to_string(),
                    "duplicate_or_reordered_delivery" => "will_published_twice".to_string(),
                    c if c.starts_with("undelivered_at_quiescence") => "will_not_delivered".to_string(),
                    c => format!("will:{c}"),
                };
                self.viol(class, message);
            } else {
                self.foreign(format!("c01:{class}"));
            }
            return;
        }
        if self.prop == P::C06 {
            // only the QoS 2 release clause is this property's business
            if class == "qos2_forwarded_before_release" {
                self.viol(class, message);
            } else {
                self.foreign(format!("c01:{class}"));
            }
            return;
        }
        if matches!(self.prop, P::C01 | P::C14 | P::C08) {
            self.viol(class, message)
        } else {
            let class: String = class.into();
            self.foreign(format!("c01:{class}"));
        }
    }

    /// A check that belongs to another property failed: stop, count, never
    /// report under this property's id.
    fn foreign(&mut self, what: impl Into<String>) {
        if self.foreign.is_none() && self.violation.is_none() {
            self.foreign = Some(what.into());
        }
    }

    fn done(&self) -> bool {
        self.violation.is_some() || self.foreign.is_some()
    }

    fn can_send(&self) -> bool {
        self.evq.len() < 900
    }

    // ----- link-side primitives ------------------------------------------

    fn connect(&mut self, c: usize) {
        if self.cfg.alternate_clean && c == 0 {
            self.clients[c].clean = self.ch.coin(1, 3);
        }
        let clean = self.clients[c].clean;
        let id = self.clients[c].id.clone();
        let mut b = LinkBuilder::new(&id, self.router_tx.clone()).clean_session(clean);
        if self.clients[c].rogue && self.ch.coin(1, 3) {
            // an MQTT 5 client that accepts broker-assigned topic aliases (its
            // forwards are not judged, so aliased empty topics do no harm here)
            b = b.topic_alias_max(*self.ch.choose(&[1u16, 2, 8]));
            self.rep.probe("client_with_topic_alias_max");
        }
        let mut will = None;
        if self.clients[c].has_will {
            let topic = self.cfg.topics[self.ch.pick(self.cfg.topics.len() as u32) as usize];
            // (a will may have an empty payload: with the retain flag it clears the
            // retained message of its topic like any other retained empty publish;
            // decided by the sequence number, not by a further choice)
            let payload = if self.cfg.empty_payload && self.next_seq % 4 == 3 {
                Vec::new()
            } else {
                format!("w{}", self.next_seq).into_bytes()
            };
            self.next_seq += 1;
            let qos = self.ch.pick(3) as u8;
            let retain = self.cfg.retained && self.ch.coin(1, 3);
            b = b.last_will(Some(pr::LastWill {
                topic: Bytes::from(topic.as_bytes().to_vec()),
                message: Bytes::from(payload.clone()),
                qos: qos_of(qos),
                retain,
            }));
            will = Some(Will {
                topic: topic.to_string(),
                payload,
                qos,
                retain,
            });
        }
        let pending = match b.verif_build_start() {
            Ok(p) => p,
            Err(_) => return,
        };
        let l = self.links.len();
        self.links.push(Link {
            client: c,
            state: LState::Pending,
            pending: Some(pending),
            tx: None,
            rx: None,
            conn_id: None,
            conn: None,
            refused_expected: None,
            shadow: VecDeque::new(),
            unnotified: 0,
            ready_owed: 0,
            awaiting: VecDeque::new(),
            got_router_disconnect: false,
            will_pending: false,
            forwards_seen: 0,
            owed_ack: VecDeque::new(),
            owed_comp: VecDeque::new(),
            out_rel: VecDeque::new(),
            dead_rx: None,
            qos_forwards: 0,
            stale_budget: 3,
            poisoned: false,
            qos2_unreleased: 0,
            fw_log: Vec::new(),
            ret_fw: Vec::new(),
            clean,
        });
        self.evq.push_back((l, hook::EV_CONNECT));
        if let Some(old) = self.clients[c].link {
            if self.links[old].state != LState::Ended {
                self.abandoned.push(old);
                self.rep.probe("link_abandoned_for_takeover");
            }
        }
        let cl = &mut self.clients[c];
        cl.link = Some(l);
        cl.connects += 1;
        cl.out_unacked = 0;
        if clean {
            cl.subscribed.clear();
        }
        self.pending_wills_note(l, will);
        tr!(self.rep, "c{c} connect link={l} clean={clean}");
    }

    fn pending_wills_note(&mut self, l: usize, will: Option<Will>) {
        // the will travels with the Connect event; remember it until the
        // broker handles that event
        self.link_wills.push((l, will));
    }

    fn finish(&mut self, l: usize) {
        let Some(p) = self.links[l].pending.take() else {
            return;
        };
        match p.try_finish() {
            VerifFinish::Pending(p) => self.links[l].pending = Some(p),
            VerifFinish::Refused => {
                let c = self.links[l].client;
                tr!(self.rep, "c{c} link={l} refused");
                self.links[l].state = LState::Ended;
                if self.clients[c].link == Some(l) {
                    self.clients[c].link = None;
                }
                if self.links[l].refused_expected.is_none() && self.links[l].conn.is_some() {
                    // the model says the broker accepted this connection
                    let conn = self.links[l].conn.unwrap();
                    if self.spec.conns[conn].alive {
                        self.unexpected_close(l, "connect_refused");
                    }
                }
            }
            VerifFinish::Ready(tx, rx, notif) => {
                let c = self.links[l].client;
                let (id, session_present) = match &notif {
                    Notification::DeviceAck(Ack::ConnAck(id, ack, _)) => (*id, ack.session_present),
                    _ => (usize::MAX, false),
                };
                tr!(self.rep, "c{c} link={l} connack id={id} session_present={session_present}");
                let link = &mut self.links[l];
                link.tx = Some(tx);
                link.rx = Some(rx);
                link.conn_id = Some(id);
                link.state = LState::Up;
                match link.conn {
                    None => {
                        if let Some(r) = link.refused_expected {
                            self.viol(
                                format!("connack_for_refused:{r}"),
                                format!("client c{c} got a CONNACK although the connection must be refused ({r})"),
                            );
                        }
                    }
                    Some(conn) => {
                        let k = &self.spec.conns[conn];
                        if k.slot != id {
                            let (slot, cid) = (k.slot, k.client_id.clone());
                            self.divergence(format!(
                                "connection id {id} assigned to {cid}, model expected slot {slot}"
                            ));
                        } else if matches!(self.prop, P::C08 | P::C03 | P::C14)
                            && k.session_present != session_present
                        {
                            let exp = k.session_present;
                            self.viol(
                                "session_present",
                                format!("CONNACK session_present={session_present}, expected {exp} for client c{c} clean={}", self.clients[c].clean),
                            );
                        }
                    }
                }
            }
        }
    }

    fn divergence(&mut self, msg: String) {
        // The reference model and the broker disagree about which connection
        // occupies a slot: for the isolation / robustness properties that is
        // the violation itself, elsewhere it belongs to them.
        match self.prop {
            P::C03 | P::C14 => self.viol("slot_divergence", msg),
            _ => self.foreign(format!("divergence: {msg}")),
        }
    }

    fn unexpected_close(&mut self, l: usize, how: &str) {
        let c = self.links[l].client;
        if self.clients[c].rogue {
            // the model predicts every close of a rogue; a mismatch means the
            // model and the broker disagree about that rogue, nothing more
            self.divergence(format!("rogue client c{c} (link {l}) closed by the broker ({how}) but alive in the model"));
            return;
        }
        let msg = format!(
            "connection of well-behaved client c{c} (link {l}) was closed by the broker ({how}) although it did nothing that permits that"
        );
        match self.prop {
            P::C03 | P::C14 | P::C01 | P::C06 | P::C09 => {
                self.viol(format!("unexpected_close:{how}"), msg)
            }
            _ => self.foreign(format!("unexpected_close:{how}")),
        }
    }

    fn push(&mut self, l: usize, pkt: SimPkt) {
        let link = &mut self.links[l];
        if link.state != LState::Up {
            return;
        }
        match &pkt {
            SimPkt::Publish { qos: 2, .. } => link.qos2_unreleased += 1,
            SimPkt::PubRel(_) | SimPkt::PubRelProps(_) if link.qos2_unreleased > 0 => link.qos2_unreleased -= 1,
            _ => {}
        }
        let Some(tx) = link.tx.as_mut() else { return };
        tx.buffer().push_back(to_packet(&pkt));
        tr!(self.rep, "c{} push {:?}", link.client, pkt);
        link.shadow.push_back(pkt);
        link.unnotified += 1;
        if self.can_send() && self.ch.coin(self.cfg.immediate_notify, 4) {
            self.notify(l);
        }
    }

    fn notify(&mut self, l: usize) {
        let link = &mut self.links[l];
        if link.state != LState::Up {
            return;
        }
        let Some(tx) = link.tx.as_mut() else { return };
        if tx.verif_notify().is_ok() {
            link.unnotified = 0;
            self.evq.push_back((l, hook::EV_DEVICE_DATA));
            tr!(self.rep, "c{} notify", self.links[l].client);
        }
    }

    fn ready(&mut self, l: usize) {
        let link = &mut self.links[l];
        let Some(rx) = link.rx.as_ref() else { return };
        if rx.verif_try_ready().is_ok() {
            link.ready_owed -= 1;
            self.evq.push_back((l, hook::EV_READY));
            self.rep.fault("slow_consumer_ready");
            tr!(self.rep, "c{} ready", self.links[l].client);
        }
    }

    fn drain(&mut self, l: usize) {
        let mut buf = VecDeque::new();
        let res = {
            let Some(rx) = self.links[l].rx.as_mut() else {
                return;
            };
            rx.verif_try_exchange(&mut buf)
        };
        match res {
            Ok(false) => {}
            Ok(true) => {
                let c = self.links[l].client;
                tr!(self.rep, "c{c} drain n={}", buf.len());
                for n in buf.drain(..) {
                    self.on_notification(l, n);
                    if self.done() {
                        return;
                    }
                }
            }
            Err(_) => {
                // the router dropped this connection
                let c = self.links[l].client;
                tr!(self.rep, "c{c} link={l} router-drop");
                self.end_link(l, true);
            }
        }
    }

    /// The link ends. `router_dropped`: the link noticed that the router had
    /// closed it; otherwise it is a network-side end and the link tells the
    /// router (Event::Disconnect), exactly like `remote()`.
    fn end_link(&mut self, l: usize, router_dropped: bool) {
        if self.links[l].state == LState::Ended {
            return;
        }
        let c = self.links[l].client;
        if router_dropped {
            if let Some(conn) = self.links[l].conn {
                if self.spec.conns[conn].alive {
                    self.unexpected_close(l, "router_drop");
                }
            }
        } else {
            // what was still in the shared outgoing buffer is lost with the link
            let mut dropped_known = false;
            if !self.cfg.stale_events {
                if let Some(rx) = self.links[l].rx.as_ref() {
                    dropped_known = rx.verif_signal().1;
                }
            }
            if !dropped_known {
                if let Some(tx) = self.links[l].tx.as_mut() {
                    if tx.verif_event(Event::Disconnect).is_ok() {
                        self.evq.push_back((l, hook::EV_DISCONNECT));
                    }
                }
            }
        }
        let link = &mut self.links[l];
        link.state = LState::Ended;
        // `tx` is kept only as the handle to the shared incoming buffer: what
        // the link pushed before it ended is still taken by the router
        link.dead_rx = link.rx.take();
        if self.clients[c].rogue && !router_dropped {
            // remote() drops its LinkRx when the network side ends; for clients
            // whose forwards are not judged nothing needs the buffer any more,
            // so the receiver really goes away (the router sees a disconnected
            // handle until it has processed the Disconnect event)
            link.dead_rx = None;
            self.rep.probe("link_receiver_really_dropped");
        }
        link.pending = None;
        link.will_pending = true;
        if self.clients[c].link == Some(l) {
            self.clients[c].link = None;
        }
    }

    fn send_will_event(&mut self, l: usize) {
        let c = self.links[l].client;
        let id = self.clients[c].id.clone();
        let conn_id = self.links[l].conn_id.unwrap_or(0);
        self.links[l].will_pending = false;
        if self
            .router_tx
            .try_send((conn_id, Event::PublishWill((id, None))))
            .is_ok()
        {
            self.evq.push_back((l, hook::EV_PUBLISH_WILL));
            tr!(self.rep, "c{c} link={l} publish-will event");
        }
    }

    // ----- notifications from the router ----------------------------------

    fn on_notification(&mut self, l: usize, n: Notification) {
        match n {
            Notification::Forward(f) => self.on_forward(l, f),
            Notification::DeviceAck(a) => self.on_ack(l, a),
            Notification::Unschedule => {
                self.links[l].ready_owed += 1;
                self.rep.probe("unschedule_seen");
            }
            Notification::Disconnect(_, _) => {
                self.links[l].got_router_disconnect = true;
            }
            _ => {}
        }
    }

    fn on_forward(&mut self, l: usize, f: rumqttd::Forward) {
        let c = self.links[l].client;
        let (_dup, qos, pkid) = f.publish.verif_meta();
        let qos = qos_num(qos);
        self.forwards_total += 1;
        self.links[l].forwards_seen += 1;
        let topic = String::from_utf8_lossy(&f.publish.topic).to_string();
        tr!(
            self.rep,
            "c{c} <- forward topic={topic} payload={} qos={qos} pkid={pkid} retain={}",
            String::from_utf8_lossy(&f.publish.payload),
            f.publish.retain
        );
        let rogue = self.clients[c].rogue;
        // C09: window invariants, from the client's point of view
        if qos > 0 {
            let link = &mut self.links[l];
            link.qos_forwards += 1;
            let dup_id = link.awaiting.iter().any(|(p, _)| *p == pkid);
            link.awaiting.push_back((pkid, None));
            let n = link.awaiting.len();
            if matches!(self.prop, P::C09 | P::C14 | P::C17) && !rogue {
                if pkid == 0 {
                    self.viol("window_pkid_zero", format!("QoS{qos} forward to c{c} carries packet id 0"));
                } else if dup_id {
                    self.viol(
                        "window_pkid_reuse",
                        format!("forward to c{c} reuses packet id {pkid} while an earlier publish with that id is still unacknowledged"),
                    );
                } else if n > 100 {
                    self.viol(
                        "window_overflow",
                        format!("{n} QoS>0 publishes awaiting acknowledgement towards c{c}"),
                    );
                }
            }
            if n == 100 {
                self.rep.probe("window_full_100");
            }
            self.links[l].owed_ack.push_back(if qos == 1 {
                Owed::PubAck(pkid)
            } else {
                Owed::PubRec(pkid)
            });
        }
        if self.done() || rogue {
            return;
        }
        if let Some(conn) = self.links[l].conn {
            if !self.spec.conns[conn].alive {
                // judged (and logged) when the model closed the connection
                return;
            }
        }
        self.last_attr = None;
        self.attribute(l, &topic, &f.publish.payload, qos, f.publish.retain, &f);
        let at = self.last_attr.take();
        // MQTT 5 subscription identifier: the one the subscription was made with
        if let (Some((si, j)), Some(conn), true) = (at, self.links[l].conn, self.cfg.sub_ids && !self.done()) {
            let want = self.spec.conns[conn].session.subs[si].sub_id;
            let got: Vec<usize> = f
                .properties
                .as_ref()
                .map(|p| p.subscription_identifiers.clone())
                .unwrap_or_default();
            let m = {
                let s = &self.spec.conns[conn].session.subs[si];
                self.spec.flogs[s.flog].entries[j] as usize
            };
            let ok = self.spec.conns[conn].session.subs[si].sub_id_ok_for(m, &got);
            if !ok {
                let path = self.spec.conns[conn].session.subs[si].path.clone();
                self.c01_viol(
                    "subscription_identifier",
                    format!("c{c} received {topic} for its subscription {path} (identifier {want:?}) with subscription identifiers {got:?}"),
                );
            }
        }
        self.links[l].fw_log.push(FwRec {
            qos,
            retained: f.publish.retain,
            at,
        });
    }

    /// C01 / C15 / C17: attribute a forward to a subscription of this
    /// connection.
    fn attribute(
        &mut self,
        l: usize,
        topic: &str,
        payload: &[u8],
        qos: u8,
        retain: bool,
        _f: &rumqttd::Forward,
    ) {
        let c = self.links[l].client;
        let Some(conn) = self.links[l].conn else {
            return;
        };
        if retain {
            // one-off replay of a retained message (C15 judges those)
            self.rep.probe("retained_replay");
            if self.prop == P::C15 {
                self.on_retained_forward(l, conn, topic, payload, qos);
            }
            return;
        }
        if self.spec.conns[conn].unchecked || matches!(self.prop, P::C03) {
            return;
        }
        // forwards through a shared group (C17)
        let has_shared = self.spec.conns[conn]
            .session
            .subs
            .iter()
            .any(|s| s.group.is_some() && spec_matches(topic, &self.spec.flogs[s.flog].filter));
        if has_shared {
            let has_plain = self.spec.conns[conn]
                .session
                .subs
                .iter()
                .any(|s| s.group.is_none() && spec_matches(topic, &self.spec.flogs[s.flog].filter));
            if has_plain {
                // the statement does not say how the two are told apart
                self.spec.conns[conn].unchecked = true;
                self.rep.probe("shared_and_plain_overlap_unchecked");
                return;
            }
            self.on_shared_forward(l, conn, topic, payload, qos);
            return;
        }
        let small_retention = self.cfg.seg_size < 1 << 20;
        let spec = &mut self.spec;
        let n = spec.conns[conn].session.subs.len();
        let is = |spec: &Spec, si: usize, j: usize| -> bool {
            let s = &spec.conns[conn].session.subs[si];
            let fl = &spec.flogs[s.flog];
            let a = &spec.accepted[fl.entries[j] as usize];
            a.topic == topic && a.payload == payload
        };
        let limit_of = |spec: &Spec, si: usize| -> usize {
            let s = &spec.conns[conn].session.subs[si];
            s.end.unwrap_or(spec.flogs[s.flog].entries.len())
        };
        let eligible = |spec: &Spec, si: usize| -> bool {
            // a subscription whose UNSUBSCRIBE was accepted stays eligible for
            // what was accepted before that (MQTT lets the server finish
            // delivering buffered messages); `end` bounds it
            let s = &spec.conns[conn].session.subs[si];
            s.group.is_none() && spec_matches(topic, &spec.flogs[s.flog].filter)
        };
        // Several subscriptions of one client may expect the same message:
        // keep every possible assignment of forwards to subscriptions (a set
        // of per-subscription position vectors); the forward must be the
        // next expected element of some subscription in some assignment. With
        // a small retention it may also lie further ahead, the skipped
        // elements then become an obligation of that assignment ("the log had
        // discarded them"), checked against the next router snapshot.
        let vecs = std::mem::take(&mut spec.conns[conn].posvecs);
        let mut next: Vec<PosVec> = Vec::new();
        let mut wrong_qos: Option<usize> = None;
        for v in &vecs {
            for si in 0..n {
                if !eligible(spec, si) {
                    continue;
                }
                let limit = limit_of(spec, si);
                let p0 = v.pos[si];
                if p0 >= limit {
                    continue;
                }
                let created_qos = spec.conns[conn].session.subs[si].old_qos == Some(qos);
                let qos_ok = |spec: &Spec, j: usize| -> bool {
                    let s = &spec.conns[conn].session.subs[si];
                    s.qos_ok_for(spec.flogs[s.flog].entries[j] as usize, qos)
                };
                let right_qos = qos_ok(spec, p0);
                if is(spec, si, p0) {
                    if right_qos {
                        let mut v2 = v.clone();
                        v2.pos[si] += 1;
                        next.push(v2);
                    } else if created_qos {
                        // explainable only by "forwards keep the QoS the
                        // subscription was created with": follow it, tainted
                        let mut v2 = v.clone();
                        v2.pos[si] += 1;
                        v2.tainted = true;
                        next.push(v2);
                        wrong_qos = Some(si);
                    } else if wrong_qos.is_none() {
                        wrong_qos = Some(si);
                    }
                } else if small_retention {
                    if let Some(j) = (p0 + 1..limit).find(|j| is(spec, si, *j)) {
                        let right_qos = qos_ok(spec, j);
                        if !right_qos && !created_qos {
                            continue;
                        }
                        let mut v2 = v.clone();
                        v2.pos[si] = j + 1;
                        v2.oblig.push((spec.conns[conn].session.subs[si].flog, p0, j));
                        if !right_qos {
                            v2.tainted = true;
                            wrong_qos = Some(si);
                        }
                        next.push(v2);
                    }
                }
            }
        }
        if !next.is_empty() {
            next.sort();
            next.dedup();
            if next.len() > 1 {
                self.rep.probe("ambiguous_attribution");
            }
            if next.iter().any(|v| !v.oblig.is_empty()) {
                self.rep.probe("gap_pending_excusal");
            }
            if next.len() > 2048 {
                spec.conns[conn].unchecked = true;
                self.rep.probe("attribution_overflow");
            }
            let all_tainted = next.iter().all(|v| v.tainted);
            if vecs.len() == 1 && next.len() == 1 {
                if let Some(si) = (0..n).find(|si| next[0].pos[*si] != vecs[0].pos[*si]) {
                    self.last_attr = Some((si, next[0].pos[si] - 1));
                }
            }
            spec.conns[conn].posvecs = next;
            if all_tainted {
                let si = wrong_qos.unwrap_or(0);
                let s = &spec.conns[conn].session.subs[si];
                let (path, sq) = (s.path.clone(), s.qos);
                self.c01_viol(
                    "forward_qos:after_resubscribe_with_other_qos",
                    format!("c{c} received {topic} at QoS {qos}; its subscription {path} was granted QoS {sq} by the latest SUBACK"),
                );
            }
            return;
        }
        // not explainable under any assignment
        let v = vecs[0].pos.clone();
        spec.conns[conn].posvecs = vecs;
        let mut gap: Option<(usize, usize)> = None;
        let mut dup = false;
        let mut after_unsub = false;
        let mut after_unsub_same_batch = false;
        let mut after_unsub_restored = false;
        let mut matches_any = false;
        for si in 0..n {
            if !eligible(spec, si) {
                continue;
            }
            matches_any = true;
            let limit = limit_of(spec, si);
            let s = &spec.conns[conn].session.subs[si];
            let total = spec.flogs[s.flog].entries.len();
            if gap.is_none() && s.qos == qos {
                if let Some(j) = (v[si]..limit).find(|j| is(spec, si, *j)) {
                    gap = Some((si, j));
                    continue;
                }
            }
            if (0..v[si].min(total)).any(|j| is(spec, si, j)) {
                dup = true;
            }
            if s.end.is_some() && (limit..total).any(|j| is(spec, si, j)) {
                after_unsub = true;
                after_unsub_same_batch |= s.unsub_after_same_batch_match;
                after_unsub_restored |= s.restored;
            }
        }
        if let Some((si, _j)) = gap {
            let a = {
                let s = &spec.conns[conn].session.subs[si];
                spec.accepted[spec.flogs[s.flog].entries[v[si]] as usize].clone()
            };
            let path = spec.conns[conn].session.subs[si].path.clone();
            let p = String::from_utf8_lossy(payload).to_string();
            self.c01_viol(
                "lost_or_reordered:skipped",
                format!(
                    "c{c} received {topic}/{p} on {path} before {}/{}, which was accepted earlier on the same subscription and is within retention",
                    a.topic,
                    String::from_utf8_lossy(&a.payload)
                ),
            );
            return;
        }
        if let Some(si) = wrong_qos {
            let s = &mut spec.conns[conn].session.subs[si];
            let (sq, old) = (s.qos, s.old_qos);
            let class = if old == Some(qos) {
                "forward_qos:after_resubscribe_with_other_qos"
            } else {
                "forward_qos"
            };
            let path = s.path.clone();
            // keep following the stream under the QoS actually used
            for pv in spec.conns[conn].posvecs.iter_mut() {
                pv.pos[si] += 1;
            }
            self.c01_viol(
                class,
                format!("c{c} received {topic} at QoS {qos}; its subscription {path} was granted QoS {sq}"),
            );
            return;
        }
        let known = spec
            .accepted
            .iter()
            .any(|a| a.topic == topic && a.payload == payload);
        let p = String::from_utf8_lossy(payload).to_string();
        let unreleased = spec
            .conns
            .iter()
            .any(|k| k.qos2_in.iter().any(|a| a.topic == topic && a.payload == payload));
        if !known && unreleased {
            self.c01_viol(
                "qos2_forwarded_before_release",
                format!("c{c} received {topic}/{p}: a QoS 2 publish the broker has received but whose PUBREL it has not yet processed"),
            );
        } else if !known {
            self.c01_viol(
                "forward_unknown_message",
                format!("c{c} received topic={topic} payload={p}, which no client published in this form"),
            );
        } else if after_unsub {
            self.c01_viol(
                if after_unsub_restored {
                    "delivery_after_unsubscribe:subscription_restored_from_session"
                } else if after_unsub_same_batch {
                    "delivery_after_unsubscribe:publish_then_unsubscribe_in_one_batch"
                } else {
                    "delivery_after_unsubscribe"
                },
                format!("c{c} received {topic}/{p}, accepted after its UNSUBSCRIBE of the only matching subscription was accepted"),
            );
        } else if dup {
            self.c01_viol(
                "duplicate_or_reordered_delivery",
                format!("c{c} received {topic}/{p} again or out of acceptance order"),
            );
        } else if !matches_any {
            self.c01_viol(
                "delivery_without_subscription",
                format!("c{c} received {topic}/{p} but none of its active subscriptions matches that topic"),
            );
        } else {
            self.c01_viol(
                "delivery_not_expected",
                format!("c{c} received {topic}/{p}, accepted before its matching subscription took effect or not next in order"),
            );
        }
    }

    /// The model has just closed connection `k` (the broker is doing the same
    /// right now). Forwards still sitting in its outgoing buffer are judged
    /// here; for a persistent session the resume positions are computed the
    /// way the statement of C08 says: the oldest QoS>0 forward of each
    /// subscription that the broker has no acknowledgement for.
    fn after_model_close(&mut self, k: usize) {
        let l = self.spec.conns[k].link;
        let c = self.links[l].client;
        if self.clients[c].rogue {
            return;
        }
        let pending: Vec<Notification> = {
            let link = &self.links[l];
            match link.rx.as_ref().or(link.dead_rx.as_ref()) {
                Some(rx) => rx.verif_peek(),
                None => Vec::new(),
            }
        };
        for n in pending {
            if self.done() {
                return;
            }
            if let Notification::Forward(f) = n {
                let (_d, q, _p) = f.publish.verif_meta();
                let qos = qos_num(q);
                let topic = String::from_utf8_lossy(&f.publish.topic).to_string();
                self.rep.probe("forward_judged_at_close");
                self.last_attr = None;
                self.attribute(l, &topic, &f.publish.payload, qos, f.publish.retain, &f);
                let at = self.last_attr.take();
                self.links[l].fw_log.push(FwRec {
                    qos,
                    retained: f.publish.retain,
                    at,
                });
            }
        }
        if self.spec.conns[k].clean {
            return;
        }
        // persistent session: positions after everything the broker had pushed
        // (QoS 0 forwards left in the dead buffer are legitimately lost) ...
        let client_id = self.spec.conns[k].client_id.clone();
        if self.spec.conns[k].posvecs.len() == 1 && !self.spec.conns[k].unchecked {
            for si in 0..self.spec.conns[k].session.subs.len() {
                let s = &self.spec.conns[k].session.subs[si];
                if s.end.is_some() || s.gone {
                    continue;
                }
                let (path, pos) = (s.path.clone(), self.spec.conns[k].posvecs[0].pos[si]);
                self.spec.set_resume_position(&client_id, &path, pos);
            }
        } else if let Some(sess) = self.spec.saved.get_mut(&client_id) {
            sess.uncertain = true;
        } else if let Some(nk) = self.spec.by_client.get(&client_id).copied() {
            self.spec.conns[nk].unchecked = true;
        }
        // ... then rewound to the oldest forward the broker has no ack for
        let acked = self.spec.conns[k].acks_accepted as usize;
        let qos_fw: Vec<FwRec> = self.links[l].fw_log.iter().filter(|r| r.qos > 0).cloned().collect();
        let unacked = if acked <= qos_fw.len() { &qos_fw[acked..] } else { &qos_fw[qos_fw.len()..] };
        if !unacked.is_empty() {
            self.rep.probe("session_saved_with_unacked_forwards");
        }
        let mut done_subs: Vec<usize> = Vec::new();
        for r in unacked {
            match r.at {
                Some((si, _)) if self.spec.conns[k].session.subs[si].end.is_some() => {
                    // an unacknowledged forward of a subscription that was
                    // unsubscribed meanwhile: MQTT wants it redelivered, the
                    // statement speaks of subscriptions in force - not judged
                    if let Some(sess) = self.spec.saved.get_mut(&client_id) {
                        sess.uncertain = true;
                    } else if let Some(nk) = self.spec.by_client.get(&client_id).copied() {
                        self.spec.conns[nk].unchecked = true;
                    }
                    self.rep.probe("resume_with_unacked_forward_of_ended_subscription");
                    return;
                }
                Some((si, j)) => {
                    if !done_subs.contains(&si) {
                        done_subs.push(si);
                        let path = self.spec.conns[k].session.subs[si].path.clone();
                        tr!(self.rep, "model: session of c{c}: {path} resumes at position {j}");
                        self.spec.set_resume_position(&client_id, &path, j);
                    }
                }
                None if r.retained => {}
                None => {
                    // attribution was ambiguous: do not judge the resumed session
                    if let Some(sess) = self.spec.saved.get_mut(&client_id) {
                        sess.uncertain = true;
                    } else if let Some(nk) = self.spec.by_client.get(&client_id).copied() {
                        self.spec.conns[nk].unchecked = true;
                    }
                    self.rep.probe("resume_position_uncertain");
                    return;
                }
            }
        }
    }

    /// C08 crash point: end the persistent subscriber's (client 0) current
    /// connection now, in one of four ways.
    fn kill_subscriber(&mut self, way: u8) {
        let c = 0usize;
        let Some(l) = self.clients[c].link else {
            self.rep.probe("crash_point_without_connection");
            return;
        };
        if self.links[l].state != LState::Up || !self.can_send() {
            self.rep.probe("crash_point_without_connection");
            return;
        }
        tr!(self.rep, "== crash point: end connection of c{c} (link {l}) way {way}");
        match way {
            0 => {
                self.rep.fault("end_by_disconnect_packet");
                self.perform(Act::DiscPkt(l));
            }
            1 => {
                self.rep.fault("end_by_link_failure");
                self.end_link(l, false);
            }
            2 => {
                self.rep.fault("end_by_protocol_error");
                self.links[l].poisoned = true;
                self.push_quiet(l, SimPkt::BadAck(0, 65535));
                self.notify(l);
            }
            _ => {
                self.rep.fault("end_by_takeover");
                if self.clients[c].connects < 6 {
                    self.connect(c);
                }
            }
        }
    }

    /// C15: a forward flagged retain=1 must be the one-off replay owed to a
    /// new, non-shared subscription of this connection. Several new
    /// subscriptions may be owed the same topic, so the forwards seen so far
    /// are matched (bipartite matching) against the replay slots
    /// (subscription, topic): every forward needs its own slot.
    fn on_retained_forward(&mut self, l: usize, conn: usize, topic: &str, payload: &[u8], qos: u8) {
        let c = self.links[l].client;
        let p = String::from_utf8_lossy(payload).to_string();
        let now = self.spec.accepted.len();
        self.links[l].ret_fw.push(RetFw {
            topic: topic.to_string(),
            payload: payload.to_vec(),
            qos,
            seen_at: now,
        });
        if self.retained_matching(l, conn, false).is_ok() {
            self.rep.probe("retained_replay_attributed");
            return;
        }
        // classify: why has this forward no slot of its own
        let subs = &self.spec.conns[conn].session.subs;
        let matching: Vec<&Sub> = subs
            .iter()
            .filter(|s| spec_matches(topic, &self.spec.flogs[s.flog].filter))
            .collect();
        let pending: Vec<&&Sub> = matching
            .iter()
            .filter(|s| s.retained_t0.is_some() && s.group.is_none())
            .collect();
        let value_ok = pending.iter().any(|s| {
            let (vals, unspecified) = self.spec.retained_window(topic, s.retained_t0.unwrap());
            vals.iter().any(|v| v.as_deref() == Some(payload))
                || (unspecified && self.spec.retained_ever(topic, payload))
        });
        let qos_ok = pending.iter().any(|s| s.qos_hist.iter().any(|(_, q)| *q == qos));
        let (class, why) = if matching.is_empty() {
            ("retained_no_matching_subscription", "no subscription of this client matches that topic")
        } else if pending.is_empty() {
            ("retained_replay_unexpected", "no new non-shared subscription of this client is owed a retained replay (repeated or shared subscription, or a live copy flagged retained)")
        } else if !value_ok {
            ("retained_stale_or_cleared_value", "that payload was not the retained message of the topic at any moment since the subscription was accepted")
        } else if !qos_ok {
            ("retained_qos", "wrong QoS for the subscription")
        } else {
            ("retained_replayed_twice", "every subscription owed this topic's retained message has already received it")
        };
        self.viol(
            class,
            format!("c{c} received retained {topic}/{p} at QoS {qos}: {why}"),
        );
    }

    /// Matching between the retained forwards seen on link `l` and replay
    /// slots (subscription, topic). `required`: instead check that every slot
    /// that MUST have been served (stable retained value, fits the window) is
    /// matched. Err carries (subscription path, topic) of an unmatched
    /// required slot, or ("", "") if some forward has no slot.
    fn retained_matching(&self, l: usize, conn: usize, required: bool) -> Result<(), (String, String)> {
        let fws = &self.links[l].ret_fw;
        let subs = &self.spec.conns[conn].session.subs;
        // slots
        let mut slots: Vec<(usize, String, bool)> = Vec::new(); // (sub, topic, must)
        let mut topics: Vec<&String> = self.spec.retained.keys().collect();
        topics.sort();
        for (si, s) in subs.iter().enumerate() {
            let Some(t0) = s.retained_t0 else { continue };
            if s.group.is_some() {
                continue;
            }
            let filter = &self.spec.flogs[s.flog].filter;
            let mut stable = Vec::new();
            let mut unstable = 0usize;
            for t in topics.iter() {
                if !spec_matches(t, filter) {
                    continue;
                }
                let (vals, unspecified) = self.spec.retained_window(t, t0);
                let is_stable = !unspecified && vals.len() == 1 && matches!(vals.first(), Some(Some(_)));
                if is_stable {
                    stable.push((*t).clone());
                } else {
                    unstable += 1;
                }
                slots.push((si, (*t).clone(), false));
            }
            if required && s.end.is_none() && !s.gone {
                let window = if s.qos == 0 {
                    self.cfg.max_outgoing as usize
                } else {
                    100usize.saturating_sub(self.links[l].qos_forwards as usize)
                };
                if stable.len() + unstable <= window {
                    for slot in slots.iter_mut() {
                        if slot.0 == si && stable.contains(&slot.1) {
                            slot.2 = true;
                        }
                    }
                }
            }
        }
        let edge = |fi: usize, sl: usize| -> bool {
            let f = &fws[fi];
            let (si, t, _) = &slots[sl];
            if f.topic != *t {
                return false;
            }
            let s = &subs[*si];
            if !s.qos_hist.iter().any(|(_, q)| *q == f.qos) {
                return false;
            }
            let (vals, unspecified) = self.spec.retained_window(t, s.retained_t0.unwrap());
            vals.iter().any(|v| v.as_deref() == Some(f.payload.as_slice()))
                || (unspecified && self.spec.retained_ever(t, &f.payload))
        };
        // Kuhn's augmenting paths, forwards on the left
        fn try_left(
            fi: usize,
            nslots: usize,
            edge: &dyn Fn(usize, usize) -> bool,
            seen: &mut Vec<bool>,
            slot_of: &mut Vec<Option<usize>>,
        ) -> bool {
            for sl in 0..nslots {
                if seen[sl] || !edge(fi, sl) {
                    continue;
                }
                seen[sl] = true;
                if slot_of[sl].is_none() || try_left(slot_of[sl].unwrap(), nslots, edge, seen, slot_of) {
                    slot_of[sl] = Some(fi);
                    return true;
                }
            }
            false
        }
        if !required {
            let mut slot_of: Vec<Option<usize>> = vec![None; slots.len()];
            for fi in 0..fws.len() {
                let mut seen = vec![false; slots.len()];
                if !try_left(fi, slots.len(), &edge, &mut seen, &mut slot_of) {
                    return Err((String::new(), String::new()));
                }
            }
            return Ok(());
        }
        // required slots on the left, forwards on the right
        let must: Vec<usize> = (0..slots.len()).filter(|i| slots[*i].2).collect();
        let redge = |mi: usize, fi: usize| -> bool { edge(fi, must[mi]) };
        let mut fw_of: Vec<Option<usize>> = vec![None; fws.len()];
        for mi in 0..must.len() {
            let mut seen = vec![false; fws.len()];
            if !try_left(mi, fws.len(), &redge, &mut seen, &mut fw_of) {
                let (si, t, _) = &slots[must[mi]];
                return Err((subs[*si].path.clone(), t.clone()));
            }
        }
        Ok(())
    }

    /// C17: a forward to a member through its shared subscription.
    fn on_shared_forward(&mut self, l: usize, conn: usize, topic: &str, payload: &[u8], qos: u8) {
        let c = self.links[l].client;
        let p = String::from_utf8_lossy(payload).to_string();
        let check = self.prop == P::C17;
        let n = self.spec.conns[conn].session.subs.len();
        let mut failure: Option<(&'static str, String)> = None;
        for si in 0..n {
            let (gname, flog, sq, path) = {
                let s = &self.spec.conns[conn].session.subs[si];
                let Some(g) = &s.group else { continue };
                if !spec_matches(topic, &self.spec.flogs[s.flog].filter) {
                    continue;
                }
                (g.clone(), s.flog, s.qos, s.path.clone())
            };
            let entries = &self.spec.flogs[flog].entries;
            let Some(j) = entries.iter().position(|i| {
                let a = &self.spec.accepted[*i as usize];
                a.topic == topic && a.payload == payload
            }) else {
                failure = Some(("shared_unknown_message", format!("c{c} received {topic}/{p} through {path}, which nobody published")));
                continue;
            };
            let alive: Vec<bool> = self.spec.conns.iter().map(|k| k.alive).collect();
            // buffered before the member left (its UNSUBSCRIBE was accepted
            // later than this message) or before its connection ended
            let sub_end = self.spec.conns[conn].session.subs[si].end;
            let leftover_ok = !alive[conn] || sub_end.map(|e| j < e).unwrap_or(false);
            let member_now = self
                .spec
                .groups
                .get(&gname)
                .map(|g| g.members.contains(&conn))
                .unwrap_or(false);
            if !member_now && !leftover_ok {
                failure = Some(("shared_delivery_to_non_member", format!("c{c} received {topic}/{p} through {path} although it is not (or no longer) a member of group {gname} and the message was accepted after it left")));
                continue;
            }
            let Some(gm) = self.spec.groups.get_mut(&gname) else {
                // the group's life has ended; nothing left to account against
                return;
            };
            if gm.mixed || gm.flog != flog {
                self.rep.probe("shared_group_mixed_filters_unchecked");
                return;
            }
            if sq != qos {
                failure = Some(("shared_qos", format!("c{c} received {topic}/{p} through {path} at QoS {qos}, granted {sq}")));
                continue;
            }
            if let Some(prev) = gm.delivered.get(&j) {
                // at-least-once redelivery: the earlier recipient went away
                // without acknowledging a QoS>0 copy
                let redelivery_ok = prev
                    .iter()
                    .all(|d| d.qos > 0 && !d.acked && !alive[d.conn] && d.conn != conn);
                if !redelivery_ok {
                    let who: Vec<usize> = prev.iter().map(|d| d.conn).collect();
                    let class = if gm.member_left {
                        "shared_duplicate_delivery:after_member_left"
                    } else {
                        "shared_duplicate_delivery"
                    };
                    failure = Some((class, format!("{topic}/{p} was forwarded through group {gname} to connection(s) {who:?} and now again to c{c}")));
                    continue;
                }
                self.rep.probe("shared_redelivery_after_disconnect");
            } else if let Some(last) = gm.last_j.get(&conn) {
                if j <= *last {
                    failure = Some(("shared_member_order", format!("c{c} received {topic}/{p} (position {j}) after position {last} of the same group")));
                    continue;
                }
            }
            gm.delivered.entry(j).or_default().push(Delivery {
                conn,
                qos,
                acked: false,
            });
            let e = gm.last_j.entry(conn).or_insert(j);
            if j > *e {
                *e = j;
            }
            if qos > 0 {
                if let Some(a) = self.links[l].awaiting.back_mut() {
                    a.1 = Some((gname.clone(), j));
                }
            }
            self.rep.probe("shared_forward_attributed");
            return;
        }
        if !check {
            return;
        }
        if let Some((class, msg)) = failure {
            self.viol(class, msg);
        }
    }

    fn on_ack(&mut self, l: usize, a: Ack) {
        let c = self.links[l].client;
        tr!(self.rep, "c{c} <- ack {:?}", short_ack(&a));
        let Some(conn) = self.links[l].conn else {
            return;
        };
        // client model
        match &a {
            Ack::PubRec(p) | Ack::PubRecWithProperties(p, _) => {
                self.links[l].out_rel.push_back(p.pkid);
            }
            Ack::PubRel(p) | Ack::PubRelWithProperties(p, _) => {
                self.links[l].owed_comp.push_back(p.pkid);
            }
            Ack::UnsubAck(u) => {
                for s in self.spec.conns[conn].session.subs.iter_mut() {
                    if s.unsub_pkid == Some(u.pkid) && s.end.is_some() {
                        s.gone = true;
                    }
                }
            }
            _ => {}
        }
        if !matches!(self.prop, P::C06 | P::C14) || self.clients[c].rogue {
            return;
        }
        // C06 ledger
        let got = match &a {
            Ack::PubAck(p) | Ack::PubAckWithProperties(p, _) => Some(ExpAck::PubAck(p.pkid)),
            Ack::PubRec(p) | Ack::PubRecWithProperties(p, _) => Some(ExpAck::PubRec(p.pkid)),
            Ack::PubComp(p) | Ack::PubCompWithProperties(p, _) => Some(ExpAck::PubComp(p.pkid)),
            Ack::SubAck(s) | Ack::SubAckWithProperties(s, _) => Some(ExpAck::SubAck(
                s.pkid,
                s.return_codes
                    .iter()
                    .map(|r| match r {
                        pr::SubscribeReasonCode::QoS0 => 0,
                        pr::SubscribeReasonCode::QoS1 => 1,
                        pr::SubscribeReasonCode::QoS2 => 2,
                        _ => 255,
                    })
                    .collect(),
            )),
            Ack::UnsubAck(u) => Some(ExpAck::UnsubAck(u.pkid)),
            Ack::PingResp(_) => Some(ExpAck::PingResp),
            Ack::PubRel(_) | Ack::PubRelWithProperties(..) => None,
            Ack::ConnAck(..) => {
                self.viol("second_connack", format!("c{c} received a second CONNACK"));
                return;
            }
        };
        let k = &mut self.spec.conns[conn];
        match got {
            None => {
                let pkid = match &a {
                    Ack::PubRel(p) | Ack::PubRelWithProperties(p, _) => p.pkid,
                    _ => 0,
                };
                match k.exp_pubrels.pop_front() {
                    Some(e) if e == pkid => {}
                    Some(e) => self.viol(
                        "pubrel_mismatch",
                        format!("c{c} received PUBREL({pkid}), the broker owes PUBREL({e}) next"),
                    ),
                    None => self.viol(
                        "pubrel_unsolicited",
                        format!("c{c} received PUBREL({pkid}) for which it sent no PUBREC"),
                    ),
                }
            }
            Some(g) => match k.exp_acks.pop_front() {
                Some(e) if e == g => {}
                Some(e) => {
                    // classify narrowly
                    let class = match (&e, &g) {
                        (ExpAck::UnsubAck(_), _) => "ack_mismatch:missing_unsuback".to_string(),
                        (_, ExpAck::UnsubAck(_)) => "ack_mismatch:extra_unsuback".to_string(),
                        (ExpAck::SubAck(..), ExpAck::SubAck(..)) => "ack_mismatch:suback_codes".to_string(),
                        _ => format!("ack_mismatch:{}_for_{}", kind(&g), kind(&e)),
                    };
                    self.viol(
                        class,
                        format!("c{c} received {g:?} while the next reply owed (request order) is {e:?}"),
                    );
                }
                None => {
                    let class = format!("ack_unsolicited:{}", kind(&g));
                    self.viol(class, format!("c{c} received {g:?} but no request is awaiting a reply"));
                }
            },
        }
    }

    // ----- observation of the acceptance order ----------------------------

    fn on_site(&mut self, site: Site) {
        self.resolve_obs();
        if let Site::Event { id, kind } = site {
            let Some((l, k)) = self.evq.pop_front() else {
                panic!("harness: router handled an event the simulator did not send");
            };
            if k != kind {
                panic!("harness: event order mismatch: sent kind {k}, router handles {kind}");
            }
            if !matches!(kind, hook::EV_CONNECT | hook::EV_DEVICE_DATA) {
                tr!(self.rep, "router: event kind={kind} id={id} (from link {l})");
            }
            match kind {
                hook::EV_CONNECT => {
                    let c = self.links[l].client;
                    let will = {
                        let i = self.link_wills.iter().position(|(x, _)| *x == l);
                        i.and_then(|i| self.link_wills.swap_remove(i).1)
                    };
                    let cid = self.clients[c].id.clone();
                    let clean = self.links[l].clean;
                    match self.spec.connect(l, &cid, clean, will) {
                        ConnectResult::Accepted {
                            conn,
                            slot,
                            session_present,
                            took_over,
                        } => {
                            self.links[l].conn = Some(conn);
                            tr!(
                                self.rep,
                                "router: connect c{c} link={l} -> slot {slot} session_present={session_present} took_over={took_over:?}"
                            );
                            if let Some(old) = took_over {
                                self.rep.probe("takeover");
                                self.rep.fault("takeover");
                                self.after_model_close(old);
                            }
                        }
                        ConnectResult::Refused(r) => {
                            self.links[l].refused_expected = Some(r);
                            tr!(self.rep, "router: connect c{c} link={l} refused ({r})");
                        }
                    }
                }
                hook::EV_DEVICE_DATA => {
                    self.pending_obs = Some(id);
                }
                hook::EV_DISCONNECT => {
                    if let Some(conn) = self.spec.occupant(id) {
                        let stale = self.spec.conns[conn].link != l;
                        tr!(self.rep, "router: disconnect slot {id} (link {l}, stale={stale})");
                        self.spec.close(conn, if stale { "stale_disconnect_event" } else { "link_disconnect_event" });
                        self.after_model_close(conn);
                        if stale {
                            self.rep.probe("stale_disconnect_on_reused_slot");
                            self.rep.fault("stale_disconnect");
                            let victim = self.links[self.spec.conns[conn].link].client;
                            let from = self.links[l].client;
                            if matches!(self.prop, P::C03 | P::C14) {
                                self.viol(
                                    "stale_disconnect_closes_later_connection",
                                    format!("the Disconnect event of the finished link {l} (client c{from}, connection id {id}) was applied to the connection client c{victim} established later in the same slot"),
                                );
                            }
                        }
                    }
                }
                hook::EV_SHADOW => {
                    if let Some(conn) = self.spec.occupant(id) {
                        if self.spec.conns[conn].link != l {
                            self.rep.probe("stale_shadow_on_reused_slot");
                            let victim = self.links[self.spec.conns[conn].link].client;
                            let from = self.links[l].client;
                            if matches!(self.prop, P::C03 | P::C14) {
                                self.viol(
                                    "stale_shadow_reply_to_later_connection",
                                    format!("the Shadow request of the finished link {l} (client c{from}, connection id {id}) is answered into the buffer of the connection client c{victim} established later in the same slot"),
                                );
                            }
                        }
                    }
                }
                hook::EV_PUBLISH_WILL => {
                    let c = self.links[l].client;
                    let cid = self.clients[c].id.clone();
                    if let Some(idx) = self.spec.publish_will(&cid) {
                        self.rep.probe("will_fired");
                        tr!(self.rep, "router: will of c{c} published (accepted #{idx})");
                    }
                }
                _ => {}
            }
        }
    }

    /// After the router handled a DeviceData event: which packets did it take?
    fn resolve_obs(&mut self) {
        let Some(slot) = self.pending_obs.take() else {
            return;
        };
        let occupant = self.spec.occupant(slot);
        // any link that believes it owns this slot
        for l in 0..self.links.len() {
            if self.links[l].conn_id != Some(slot) || self.links[l].shadow.is_empty() {
                continue;
            }
            let Some(tx) = self.links[l].tx.as_ref() else {
                continue;
            };
            let real_empty = tx.buffer().is_empty();
            let is_occupant = occupant.is_some() && self.links[l].conn == occupant;
            if real_empty {
                let batch: Vec<SimPkt> = self.links[l].shadow.drain(..).collect();
                if !is_occupant {
                    self.divergence(format!(
                        "broker took the packets of link {l} for slot {slot}, which the model says belongs to {occupant:?}"
                    ));
                    return;
                }
                let conn = occupant.unwrap();
                tr!(self.rep, "router: accepted {} packet(s) from c{}", batch.len(), self.links[l].client);
                if batch.len() >= 10 {
                    self.rep.probe("batch_10_plus");
                }
                self.note_same_batch(&batch);
                let effects = self.spec.accept(conn, &batch);
                for e in effects {
                    let Effect::Close(k, why) = e;
                    tr!(self.rep, "model: connection {k} closed ({why})");
                    self.after_model_close(k);
                }
            } else if is_occupant {
                self.divergence(format!(
                    "broker handled DeviceData for slot {slot} but left the packets of its occupant (link {l}) in the buffer"
                ));
                return;
            }
        }
    }

    fn note_same_batch(&mut self, batch: &[SimPkt]) {
        let mut seen_pub = false;
        for p in batch {
            match p {
                SimPkt::Publish { .. } => seen_pub = true,
                SimPkt::Unsubscribe { .. } if seen_pub => self.rep.probe("same_batch_pub_unsub"),
                SimPkt::Subscribe { .. } if seen_pub => self.rep.probe("same_batch_pub_sub"),
                _ => {}
            }
        }
    }

    // ----- choosing the next non-router step ------------------------------

    fn enabled(&self) -> Vec<(Act, u32)> {
        let mut v = Vec::new();
        let can_send = self.can_send();
        for l in 0..self.links.len() {
            if self.links[l].will_pending && can_send {
                v.push((Act::Will(l), 3));
            }
        }
        for (c, cl) in self.clients.iter().enumerate() {
            let Some(l) = cl.link else {
                let max_connects = if self.cfg.will_once && cl.has_will { 1 } else { 4 };
                if !self.quiescing && can_send && cl.connects < max_connects {
                    v.push((Act::Connect(c), 4));
                }
                continue;
            };
            let link = &self.links[l];
            match link.state {
                LState::Pending => {
                    if link.pending.as_ref().map(|p| p.answered()).unwrap_or(false) {
                        v.push((Act::Finish(l), 6));
                    }
                    // a second connection attempt under the same id (takeover)
                    if self.cfg.takeover && !self.quiescing && can_send && cl.connects < 4 {
                        v.push((Act::Connect(c), 1));
                    }
                }
                LState::Ended => {}
                LState::Up => {
                    let (signals, gone) = link.rx.as_ref().map(|r| r.verif_signal()).unwrap_or((0, false));
                    if (signals > 0 || gone) && !cl.stalled {
                        v.push((Act::Drain(l), 6));
                    }
                    if link.unnotified > 0 && can_send {
                        v.push((Act::Notify(l), 6));
                    }
                    if link.ready_owed > 0 && can_send {
                        v.push((Act::Ready(l), 4));
                    }
                    let room = link.shadow.len() < 200 && !link.poisoned;
                    if room {
                        if !link.owed_ack.is_empty() {
                            let w = match cl.pace {
                                Pace::Eager => 8,
                                Pace::Lazy => 1,
                                Pace::Burst(k) => {
                                    if link.owed_ack.len() as u32 >= k {
                                        8
                                    } else {
                                        0
                                    }
                                }
                                Pace::Withhold => 0,
                            };
                            let w = if self.quiescing { 8 } else { w };
                            if w > 0 {
                                v.push((Act::Ack(l), w));
                            }
                        }
                        if !link.owed_comp.is_empty() {
                            let w = if self.quiescing || cl.pace != Pace::Withhold { 4 } else { 0 };
                            if w > 0 {
                                v.push((Act::Comp(l), w));
                            }
                        }
                        if !link.out_rel.is_empty() {
                            v.push((Act::Rel(l), 4));
                        }
                    }
                    if !self.quiescing && room {
                        let cfg = &self.cfg;
                        v.push((Act::Sub(l), cfg.w_sub));
                        if !cl.subscribed.is_empty() || cfg.unsub_unknown {
                            v.push((Act::Unsub(l), cfg.w_unsub));
                        }
                        v.push((Act::Pub(l), cfg.w_pub));
                        v.push((Act::Burst(l), cfg.w_burst));
                        v.push((Act::Ping(l), cfg.w_ping));
                        v.push((Act::DiscPkt(l), cfg.w_disc_pkt));
                        if can_send {
                            v.push((Act::Drop(l), cfg.w_drop));
                            if cfg.takeover && cl.connects < 4 {
                                v.push((Act::Connect(c), 1));
                            }
                        }
                    }
                }
            }
        }
        if self.cfg.stale_events && !self.quiescing && can_send {
            // the network side of a link its client abandoned (DISCONNECT sent,
            // or superseded by a takeover) ends at some arbitrary later moment:
            // unless the link has noticed the router's drop it sends Disconnect
            for l in self.abandoned.iter() {
                if self.links[*l].state == LState::Up && (self.cfg.stale_on_reused || !self.slot_reused(*l)) {
                    v.push((Act::Drop(*l), 3));
                }
            }
        }
        if self.cfg.rogue && !self.quiescing && can_send {
            v.push((Act::Tick, 1));
            for (l, link) in self.links.iter().enumerate() {
                let cl = &self.clients[link.client];
                if !cl.rogue {
                    continue;
                }
                match link.state {
                    LState::Up if link.shadow.len() < 200 => {
                        if cl.link == Some(l) && !link.poisoned {
                            v.push((Act::Rogue(l), 3));
                        } else if self.cfg.stale_events {
                            // a link its client abandoned, still unaware that the
                            // router closed it: whatever it emits now is stale
                            if link.unnotified > 0 {
                                v.push((Act::Notify(l), 2));
                            }
                            if link.ready_owed > 0 {
                                v.push((Act::Ready(l), 2));
                            }
                        }
                        if self.cfg.shadow_events && (self.cfg.stale_on_reused || !self.slot_reused(l)) {
                            v.push((Act::Shadow(l), 1));
                        }
                    }
                    _ => {}
                }
            }
        }
        v.retain(|(_, w)| *w > 0);
        v
    }

    /// The slot of link `l`'s connection is occupied by a later connection, or
    /// may be by the time the router gets to an event emitted now (a Connect
    /// is waiting in the router's channel).
    fn slot_reused(&self, l: usize) -> bool {
        self.links[l]
            .conn_id
            .and_then(|id| self.spec.occupant(id))
            .map_or(false, |c| self.spec.conns[c].link != l)
            || self.links.iter().any(|k| k.state == LState::Pending)
    }

    fn step_non_router(&mut self) -> bool {
        let acts = self.enabled();
        if acts.is_empty() {
            return false;
        }
        let weights: Vec<u32> = acts.iter().map(|a| a.1).collect();
        let Some(i) = self.ch.weighted(&weights) else {
            return false;
        };
        self.perform(acts[i].0);
        true
    }

    fn alloc_pkid(&mut self, c: usize) -> u16 {
        let cl = &mut self.clients[c];
        cl.next_pkid = if cl.next_pkid >= 65535 { 1 } else { cl.next_pkid + 1 };
        cl.next_pkid
    }

    fn gen_publish(&mut self, c: usize) -> SimPkt {
        let topic = self.cfg.topics[self.ch.pick(self.cfg.topics.len() as u32) as usize];
        let qos = self.ch.weighted(&self.cfg.qos_mix).unwrap_or(0) as u8;
        let retain = self.cfg.retained && self.ch.coin(1, 4);
        let empty = self.cfg.empty_payload && self.ch.coin(1, 6);
        let payload = if empty {
            Vec::new()
        } else {
            let p = format!("m{}", self.next_seq).into_bytes();
            self.next_seq += 1;
            p
        };
        let pkid = if qos > 0 { self.alloc_pkid(c) } else { 0 };
        if qos > 0 {
            self.clients[c].out_unacked += 1;
        }
        SimPkt::Publish {
            topic: topic.as_bytes().to_vec(),
            payload,
            qos,
            pkid,
            retain,
        }
    }

    fn perform(&mut self, act: Act) {
        match act {
            Act::Connect(c) => {
                // an earlier link of this client that is still up is simply abandoned by the
                // client (takeover): it keeps living as a link actor until the router drops it
                self.connect(c)
            }
            Act::Finish(l) => self.finish(l),
            Act::Drain(l) => self.drain(l),
            Act::Notify(l) => self.notify(l),
            Act::Ready(l) => self.ready(l),
            Act::Will(l) => self.send_will_event(l),
            Act::Ack(l) => {
                let c = self.links[l].client;
                let n = match self.clients[c].pace {
                    Pace::Burst(_) => self.links[l].owed_ack.len(),
                    _ => 1 + self.ch.geometric(1, 2, 5) as usize,
                };
                for _ in 0..n {
                    let Some(o) = self.links[l].owed_ack.pop_front() else {
                        break;
                    };
                    let (pkt, id) = match o {
                        Owed::PubAck(p) => (SimPkt::PubAck(p), p),
                        Owed::PubRec(p) => (SimPkt::PubRec(p), p),
                    };
                    if let Some(pos) = self.links[l].awaiting.iter().position(|x| x.0 == id) {
                        if let Some((_, Some((g, j)))) = self.links[l].awaiting.remove(pos) {
                            // acknowledged: a later redelivery through the group is a duplicate
                            let conn = self.links[l].conn;
                            if let Some(gm) = self.spec.groups.get_mut(&g) {
                                if let Some(ds) = gm.delivered.get_mut(&j) {
                                    for d in ds.iter_mut() {
                                        if Some(d.conn) == conn {
                                            d.acked = true;
                                        }
                                    }
                                }
                            }
                        }
                    }
                    self.push(l, pkt);
                }
            }
            Act::Comp(l) => {
                let c = self.links[l].client;
                if let Some(p) = self.links[l].owed_comp.pop_front() {
                    self.push(l, SimPkt::PubComp(p));
                }
            }
            Act::Rel(l) => {
                let c = self.links[l].client;
                if let Some(p) = self.links[l].out_rel.pop_front() {
                    if self.cfg.v5_packets && c % 2 == 0 {
                        self.rep.probe("pubrel_with_properties");
                        self.push(l, SimPkt::PubRelProps(p));
                    } else {
                        self.push(l, SimPkt::PubRel(p));
                    }
                }
            }
            Act::Sub(l) => {
                let c = self.links[l].client;
                let n = if self.cfg.sub_multi { 1 + self.ch.geometric(1, 3, 3) } else { 1 };
                let mut filters = Vec::new();
                for _ in 0..n {
                    let f = self.cfg.filters[self.ch.pick(self.cfg.filters.len() as u32) as usize].to_string();
                    let f = if self.cfg.members > 0 {
                        // C17: members use shared subscriptions only, one group per filter
                        if c < self.cfg.members {
                            let gi = self.cfg.filters.iter().position(|x| *x == f).unwrap_or(0);
                            format!("$share/g{gi}/{f}")
                        } else {
                            f
                        }
                    } else if self.cfg.shared && (self.prop != P::C14 || self.clients[c].rogue) && self.ch.coin(1, 2) {
                        // (in C14 runs only the other clients use shared filters, so
                        // that the well-behaved pair's stream stays attributable)
                        format!("$share/g{}/{f}", self.ch.pick(2))
                    } else {
                        f
                    };
                    let already = self.clients[c].subscribed.contains(&f)
                        || filters.iter().any(|(x, _): &(String, u8)| *x == f);
                    if already && !self.cfg.resub {
                        continue;
                    }
                    let mut q = self.ch.weighted(&self.cfg.sub_qos_mix).unwrap_or(0) as u8;
                    if already && !self.cfg.resub_qos_change {
                        // same QoS as before
                        if let Some(conn) = self.links[l].conn {
                            if let Some(s) = self.spec.conns[conn]
                                .session
                                .subs
                                .iter()
                                .find(|s| s.path == f && !s.gone && s.end.is_none())
                            {
                                q = s.qos;
                            } else {
                                continue;
                            }
                        }
                    }
                    filters.push((f, q));
                }
                if filters.is_empty() {
                    return;
                }
                for (f, _) in &filters {
                    if !self.clients[c].subscribed.contains(f) {
                        self.clients[c].subscribed.push(f.clone());
                    }
                }
                let pkid = self.alloc_pkid(c);
                let sub_id = if self.cfg.sub_ids {
                    self.sub_id_counter += 1;
                    Some(self.sub_id_counter)
                } else {
                    None
                };
                self.push(
                    l,
                    SimPkt::Subscribe {
                        pkid,
                        filters,
                        sub_id,
                    },
                );
            }
            Act::Unsub(l) => {
                let c = self.links[l].client;
                let mut filters = Vec::new();
                let n = if self.cfg.unsub_multi { 1 + self.ch.geometric(1, 3, 2) } else { 1 };
                for _ in 0..n {
                    let unknown = self.cfg.unsub_unknown
                        && (self.clients[c].subscribed.is_empty() || self.ch.coin(1, 4));
                    if unknown {
                        self.rep.probe("unsubscribe_unknown_filter");
                        filters.push("never/subscribed".to_string());
                    } else if !self.clients[c].subscribed.is_empty() {
                        let i = self.ch.pick(self.clients[c].subscribed.len() as u32) as usize;
                        let f = self.clients[c].subscribed.remove(i);
                        filters.push(f);
                    }
                }
                if filters.is_empty() {
                    return;
                }
                if filters.len() > 1 {
                    self.rep.probe("unsubscribe_multi_filter");
                }
                let pkid = self.alloc_pkid(c);
                if self.cfg.same_batch_bias && self.ch.coin(1, 2) {
                    // a publish on a topic of the filter right before, same batch
                    let p = self.gen_publish(c);
                    self.push_quiet(l, p);
                }
                self.push(l, SimPkt::Unsubscribe { pkid, filters });
            }
            Act::Pub(l) => {
                let c = self.links[l].client;
                let p = self.gen_publish(c);
                self.push(l, p);
            }
            Act::Burst(l) => {
                let c = self.links[l].client;
                let n = if self.cfg.big_burst {
                    self.ch.range(120, 199)
                } else {
                    self.ch.range(2, 30)
                };
                self.rep.probe(if n >= 100 { "big_burst" } else { "burst" });
                for _ in 0..n {
                    if self.links[l].shadow.len() >= 200 {
                        break;
                    }
                    let p = self.gen_publish(c);
                    self.push_quiet(l, p);
                }
                if self.can_send() {
                    self.notify(l);
                }
            }
            Act::Ping(l) => self.push(l, SimPkt::PingReq),
            Act::DiscPkt(l) => {
                self.rep.fault("client_disconnect");
                self.push(l, SimPkt::Disconnect);
                // a client that sent DISCONNECT sends nothing else
                let c = self.links[l].client;
                if self.links[l].unnotified > 0 {
                    self.notify(l);
                }
                self.clients[c].link = None;
                self.links[l].state = LState::Up;
                self.abandoned.push(l);
            }
            Act::Rogue(l) => self.rogue_step(l),
            Act::Shadow(l) => {
                let f = self.cfg.filters[self.ch.pick(self.cfg.filters.len() as u32) as usize].to_string();
                if let Some(tx) = self.links[l].tx.as_mut() {
                    if tx.shadow(f).is_ok() {
                        self.evq.push_back((l, hook::EV_SHADOW));
                        self.rep.probe("shadow_event");
                        tr!(self.rep, "c{} link={l} shadow event", self.links[l].client);
                    }
                }
            }
            Act::Tick => {
                let ev = match self.ch.pick(4) {
                    0 => {
                        let (tx, rx) = flume::bounded(2);
                        self.meter_rx.push(rx);
                        (Event::NewMeter(tx), hook::EV_NEW_METER)
                    }
                    1 => {
                        let (tx, rx) = flume::bounded(2);
                        self.alert_rx.push(rx);
                        (Event::NewAlert(tx), hook::EV_NEW_ALERT)
                    }
                    2 => (Event::SendMeters, hook::EV_SEND_METERS),
                    _ => (Event::SendAlerts, hook::EV_SEND_ALERTS),
                };
                if self.router_tx.try_send((0, ev.0)).is_ok() {
                    self.evq.push_back((usize::MAX, ev.1));
                    self.rep.probe("tick_event");
                    tr!(self.rep, "tick event kind={}", ev.1);
                }
            }
            Act::StaleNotify(l) => {
                self.links[l].stale_budget -= 1;
                if let Some(tx) = self.links[l].tx.as_mut() {
                    if tx.verif_notify().is_ok() {
                        self.evq.push_back((l, hook::EV_DEVICE_DATA));
                        self.rep.fault("stale_device_data");
                        tr!(self.rep, "c{} link={l} stale DeviceData", self.links[l].client);
                    }
                }
            }
            Act::StaleReady(l) => {
                self.links[l].stale_budget -= 1;
                self.links[l].ready_owed -= 1;
                let id = self.links[l].conn_id.unwrap_or(0);
                if self.router_tx.try_send((id, Event::Ready)).is_ok() {
                    self.evq.push_back((l, hook::EV_READY));
                    self.rep.fault("stale_ready");
                    tr!(self.rep, "c{} link={l} stale Ready", self.links[l].client);
                }
            }
            Act::Drop(l) => {
                self.rep.fault("link_drop");
                tr!(self.rep, "c{} link={l} network drop", self.links[l].client);
                self.end_link(l, false);
            }
        }
    }

    /// One deliberately wrong (but decodable) action of a rogue client. Only
    /// actions whose effect on the connection is certain are used, so that
    /// the reference model knows whether the broker must close it.
    fn rogue_step(&mut self, l: usize) {
        let c = self.links[l].client;
        self.rep.fault("rogue_packet");
        let pkt = match self.ch.pick(9) {
            0 => {
                // ack with an id the broker never uses
                let kind = self.ch.pick(3) as u8;
                let pkid = *self.ch.choose(&[0u16, 101, 65535]);
                SimPkt::BadAck(kind, pkid)
            }
            1 => {
                // out-of-order ack: the second unacknowledged forward first
                if self.links[l].awaiting.len() >= 2 {
                    let p = self.links[l].awaiting[1].0;
                    SimPkt::BadAck(0, p)
                } else {
                    SimPkt::BadAck(2, 65535)
                }
            }
            2 => SimPkt::PubRel(*self.ch.choose(&[0u16, 1, 9999])),
            3 => SimPkt::Subscribe {
                pkid: 77,
                filters: vec![("$SYS/#".to_string(), self.ch.pick(3) as u8)],
                sub_id: None,
            },
            4 => SimPkt::Subscribe {
                pkid: 78,
                filters: vec![("a/b".to_string(), 0)],
                sub_id: Some(0),
            },
            5 => {
                let qos = self.ch.pick(2) as u8;
                let pkid = if qos > 0 { self.alloc_pkid(c) } else { 0 };
                SimPkt::Publish {
                    topic: vec![0xff, 0xfe, b'/', b'x'],
                    payload: b"bad".to_vec(),
                    qos,
                    pkid,
                    retain: false,
                }
            }
            6 => SimPkt::Ignored(*self.ch.choose(&["connack", "suback", "unsuback", "connect", "pingresp"])),
            7 => {
                // MQTT 5 publish with alias games (QoS 0/1 only)
                let qos = self.ch.pick(2) as u8;
                let pkid = if qos > 0 { self.alloc_pkid(c) } else { 0 };
                let topic = self.cfg.topics[self.ch.pick(self.cfg.topics.len() as u32) as usize];
                let (t, alias) = match self.ch.pick(5) {
                    0 => (topic.as_bytes().to_vec(), Some(0u16)),
                    1 => (topic.as_bytes().to_vec(), Some(5000)),
                    2 => (Vec::new(), Some(self.ch.range(1, 3) as u16)),
                    3 => (topic.as_bytes().to_vec(), Some(self.ch.range(1, 3) as u16)),
                    _ => (topic.as_bytes().to_vec(), None),
                };
                let payload = format!("m{}", self.next_seq).into_bytes();
                self.next_seq += 1;
                SimPkt::PublishV5 {
                    topic: t,
                    payload,
                    qos,
                    pkid,
                    retain: false,
                    alias,
                    sub_ids: self.ch.coin(1, 6),
                }
            }
            _ => {
                // QoS 2 publish that is never released, or released twice
                let pkid = self.alloc_pkid(c);
                let topic = self.cfg.topics[self.ch.pick(self.cfg.topics.len() as u32) as usize];
                let payload = format!("m{}", self.next_seq).into_bytes();
                self.next_seq += 1;
                SimPkt::Publish {
                    topic: topic.as_bytes().to_vec(),
                    payload,
                    qos: 2,
                    pkid,
                    retain: false,
                }
            }
        };
        let closes = match &pkt {
            SimPkt::BadAck(..) => true,
            SimPkt::PubRel(_) => self.links[l].qos2_unreleased == 0,
            SimPkt::Subscribe { filters, sub_id, .. } => {
                *sub_id == Some(0) || filters.iter().any(|(f, _)| f.starts_with('$') && !f.starts_with("$share"))
            }
            SimPkt::Publish { topic, .. } => std::str::from_utf8(topic).is_err(),
            SimPkt::PublishV5 { topic, alias, sub_ids, .. } => {
                *sub_ids
                    || matches!(alias, Some(a) if *a == 0 || *a > 4096)
                    || (topic.is_empty())
            }
            _ => false,
        };
        if closes {
            // conservative: also poison when the close is only possible (empty
            // topic with an alias that may or may not be known)
            self.links[l].poisoned = true;
        }
        self.push(l, pkt);
    }

    /// Push without the coin for an immediate notify (used inside batches).
    fn push_quiet(&mut self, l: usize, pkt: SimPkt) {
        let link = &mut self.links[l];
        if link.state != LState::Up {
            return;
        }
        match &pkt {
            SimPkt::Publish { qos: 2, .. } => link.qos2_unreleased += 1,
            SimPkt::PubRel(_) | SimPkt::PubRelProps(_) if link.qos2_unreleased > 0 => link.qos2_unreleased -= 1,
            _ => {}
        }
        let Some(tx) = link.tx.as_mut() else { return };
        tx.buffer().push_back(to_packet(&pkt));
        tr!(self.rep, "c{} push {:?}", link.client, pkt);
        link.shadow.push_back(pkt);
        link.unnotified += 1;
    }

    /// Links whose client went away (DISCONNECT sent, or abandoned by a
    /// takeover) still notify, drain and notice the router's drop.
    fn service_abandoned(&mut self) -> bool {
        let mut progress = false;
        let list: Vec<usize> = self.abandoned.clone();
        for l in list {
            if self.links[l].state != LState::Up {
                continue;
            }
            if self.links[l].unnotified > 0 && self.can_send() {
                self.notify(l);
                progress = true;
            }
            let (signals, gone) = self.links[l]
                .rx
                .as_ref()
                .map(|r| r.verif_signal())
                .unwrap_or((0, false));
            if signals > 0 || gone {
                self.drain(l);
                progress = true;
            }
        }
        self.abandoned.retain(|l| self.links[*l].state == LState::Up);
        progress
    }
}

fn kind(e: &ExpAck) -> &'static str {
    match e {
        ExpAck::PubAck(_) => "puback",
        ExpAck::PubRec(_) => "pubrec",
        ExpAck::PubComp(_) => "pubcomp",
        ExpAck::SubAck(..) => "suback",
        ExpAck::UnsubAck(_) => "unsuback",
        ExpAck::PingResp => "pingresp",
    }
}

fn short_ack(a: &Ack) -> String {
    match a {
        Ack::ConnAck(id, c, _) => format!("ConnAck({id},sp={})", c.session_present),
        Ack::PubAck(p) | Ack::PubAckWithProperties(p, _) => format!("PubAck({})", p.pkid),
        Ack::SubAck(s) | Ack::SubAckWithProperties(s, _) => format!("SubAck({},{:?})", s.pkid, s.return_codes),
        Ack::PubRec(p) | Ack::PubRecWithProperties(p, _) => format!("PubRec({})", p.pkid),
        Ack::PubRel(p) | Ack::PubRelWithProperties(p, _) => format!("PubRel({})", p.pkid),
        Ack::PubComp(p) | Ack::PubCompWithProperties(p, _) => format!("PubComp({})", p.pkid),
        Ack::UnsubAck(u) => format!("UnsubAck({})", u.pkid),
        Ack::PingResp(_) => "PingResp".to_string(),
    }
}

// ---------------------------------------------------------------------------
// The run
// ---------------------------------------------------------------------------

struct HookGuard;
impl Drop for HookGuard {
    fn drop(&mut self) {
        hook::uninstall();
    }
}

enum RouterStep {
    Ran,
    Idle,
    Dead,
}

fn router_step(router: &mut Router, world: &Rc<RefCell<World>>) -> RouterStep {
    let r = guarded(|| router.verif_run_inner());
    let mut w = world.borrow_mut();
    w.resolve_obs();
    match r {
        Ok(Ok(idle)) => {
            w.router_blocked = idle;
            if idle {
                RouterStep::Idle
            } else {
                RouterStep::Ran
            }
        }
        Ok(Err(e)) => {
            let msg = format!("router loop returned an error and would terminate: {e}");
            match w.prop {
                P::C03 | P::C14 => w.viol("router_terminated", msg),
                _ => w.foreign("router_terminated"),
            }
            RouterStep::Dead
        }
        Err((loc, msg)) => {
            tr!(w.rep, "router PANIC at {loc}: {msg}");
            match w.prop {
                P::C03 | P::C14 => w.viol(
                    format!("panic:{loc}"),
                    format!("routing core panicked at {loc}: {msg}"),
                ),
                _ => w.foreign(format!("panic:{loc}")),
            }
            RouterStep::Dead
        }
    }
}

/// Everything that changes when the router makes observable progress
/// (ready-queue order deliberately excluded).
fn progress_signature(router: &Router) -> u64 {
    let snap = router.verif_snapshot();
    let mut h: u64 = 0xcbf2_9ce4_8422_2325;
    let mut put = |v: u64| crate::core::fnv(&mut h, &v.to_le_bytes());
    for c in &snap.connections {
        put(c.id as u64);
        put(c.status as u64);
        put(c.inflight as u64);
        put(c.outgoing_len as u64);
        put(c.incoming_len as u64);
        put(c.unacked_pubrels as u64);
        for (_, cur) in c.tracked.iter().chain(c.parked.iter()) {
            put(cur.0);
            put(cur.1);
        }
        put(c.tracked.len() as u64);
        put(c.parked.len() as u64);
    }
    for g in &snap.groups {
        put(g.cursor.0);
        put(g.cursor.1);
        put(g.members.len() as u64);
    }
    for (_, head, next) in &snap.filters {
        put(*head);
        put(*next);
    }
    put(snap.readyqueue.len() as u64);
    put(snap.channel_len as u64);
    h
}

/// Runs the router until it would block, or until it has stopped making
/// progress (a router that keeps spinning without changing anything
/// observable has, for the liveness clauses, gone idle). Returns false if the
/// router died.
fn run_to_idle(router: &mut Router, world: &Rc<RefCell<World>>) -> bool {
    let mut last_sig = 0u64;
    let mut same = 0;
    for _ in 0..300 {
        {
            let w = world.borrow();
            if w.done() {
                return true;
            }
            if w.router_blocked && w.evq.is_empty() {
                return true;
            }
        }
        match router_step(router, world) {
            RouterStep::Dead => return false,
            _ => {}
        }
        let sig = progress_signature(router);
        if sig == last_sig && world.borrow().evq.is_empty() {
            same += 1;
            if same >= 3 {
                world.borrow_mut().rep.probe("router_spinning_without_progress");
                return true;
            }
        } else {
            same = 0;
            last_sig = sig;
        }
    }
    world.borrow_mut().rep.probe("run_to_idle_cap");
    true
}

fn fingerprint(router: &Router) -> u64 {
    let snap = router.verif_snapshot();
    let mut h: u64 = 0xcbf2_9ce4_8422_2325;
    let bucket = |n: usize| -> u8 {
        match n {
            0 => 0,
            1..=9 => 1,
            10..=99 => 2,
            100..=198 => 3,
            _ => 4,
        }
    };
    for c in &snap.connections {
        let scheduled = snap.readyqueue.contains(&c.id) as u8;
        let bytes = [
            c.status,
            scheduled,
            c.tracked.len().min(5) as u8,
            c.parked.len().min(5) as u8,
            bucket(c.inflight),
            bucket(c.outgoing_len),
            c.clean as u8,
            bucket(c.incoming_len),
        ];
        crate::core::fnv(&mut h, &bytes);
    }
    for g in &snap.groups {
        crate::core::fnv(&mut h, &[g.members.len() as u8, g.current.is_some() as u8]);
    }
    crate::core::fnv(&mut h, &[snap.graveyard.len().min(5) as u8, bucket(snap.channel_len)]);
    h
}

/// Quiescence: every client acknowledges and drains everything, links send
/// what they owe, the router runs until it blocks; repeated to a fixpoint.
/// No new stimulus (publish, subscribe, ping) is injected.
/// The `custom_segment` override of a run, if any: (key, segment count).
fn custom_segment_of(cfg: &RunCfg) -> Option<(&'static str, usize)> {
    if cfg.seg_size == 1024 && cfg.topics.len() % 2 == 0 {
        Some(("a/#", cfg.seg_count + 2))
    } else {
        None
    }
}

fn quiesce(router: &mut Router, world: &Rc<RefCell<World>>) -> bool {
    {
        let mut w = world.borrow_mut();
        w.quiescing = true;
        tr!(w.rep, "-- quiesce");
    }
    let saved_budget = std::mem::replace(&mut world.borrow_mut().yield_budget, 0);
    let mut alive = true;
    // the loop ends at a fixpoint; the cap only bounds the cost of one run, and a
    // run that reaches it (a backlog of tens of thousands of messages behind a
    // window of 100) is not judged for completeness
    let mut fixpoint = false;
    for _round in 0..3000 {
        let mut progress = false;
        {
            let mut w = world.borrow_mut();
            if w.done() {
                fixpoint = true;
                break;
            }
            // every enabled non-router step except new stimulus (quiescing flag)
            for _ in 0..50 {
                let acts = w.enabled();
                let mut any = false;
                for (act, _) in acts {
                    if let Act::Finish(l) = act {
                        w.perform(act);
                        if w.links[l].state != LState::Pending {
                            any = true;
                        }
                        continue;
                    }
                    w.perform(act);
                    any = true;
                    if w.done() {
                        break;
                    }
                }
                if !any || w.done() {
                    break;
                }
                progress = true;
            }
            if w.service_abandoned() {
                progress = true;
            }
        }
        if !run_to_idle(router, world) {
            alive = false;
            break;
        }
        let w = world.borrow();
        let pending_signals = w.links.iter().any(|l| {
            l.state == LState::Up
                && l.rx.as_ref().map(|r| {
                    let (s, g) = r.verif_signal();
                    s > 0 || g
                }).unwrap_or(false)
        }) || w.links.iter().any(|l| l.state == LState::Pending);
        // what the router just did may have enabled further link/client steps
        let more = !w.enabled().is_empty() || w.abandoned.iter().any(|l| {
            let k = &w.links[*l];
            k.state == LState::Up
                && (k.unnotified > 0
                    || k.rx.as_ref().map(|r| {
                        let (s, g) = r.verif_signal();
                        s > 0 || g
                    }).unwrap_or(false))
        });
        // (a signal pending on a link that has no enabled step - a link that sent a
        // packet which ends its connection, a connect the router will not answer -
        // changes nothing any more: the router has just run to idle)
        let _ = pending_signals;
        if !progress && !more && w.evq.is_empty() {
            fixpoint = true;
            break;
        }
        if _round == 2990 && std::env::var("VERIF_DEBUG_QUIESCE").is_ok() {
            let who: Vec<String> = w.links.iter().enumerate().filter(|(_, l)| l.state == LState::Up && l.rx.as_ref().map(|r| { let (s, g) = r.verif_signal(); s > 0 || g }).unwrap_or(false)).map(|(i, l)| format!("link{i} rogue={} current={} poisoned={} abandoned={} sig={:?}", w.clients[l.client].rogue, w.clients[l.client].link == Some(i), l.poisoned, w.abandoned.contains(&i), l.rx.as_ref().map(|r| r.verif_signal()))).collect();
            eprintln!("quiesce stuck: pending={} {:?}", w.links.iter().filter(|l| l.state == LState::Pending).count(), who);
        }
    }
    let mut w = world.borrow_mut();
    w.yield_budget = saved_budget;
    w.quiescing = false;
    w.quiesce_incomplete = alive && !fixpoint;
    if w.quiesce_incomplete {
        w.rep.probe("quiescence_round_cap_reached");
    }
    alive
}

impl World {
    /// Deferred retention checks and completeness, against a router snapshot.
    fn check_at_quiescence(&mut self, snap: &hook::VerifSnapshot, complete: bool) {
        // C13's retention clause seen at the router: every filter log keeps at most
        // the configured number of segments (the per-filter override where its key
        // covers the filter), and has discarded something only if it is at that
        // number. Filters with wildcards of their own are left out (how the option's
        // key is matched against them is the broker's business).
        if self.cfg.seg_size == 1024 {
            for (filter, count) in snap.filter_segments.iter() {
                if filter.contains('+') || filter.contains('#') || filter.starts_with('$') {
                    continue;
                }
                let max = match custom_segment_of(&self.cfg) {
                    Some((key, n)) if spec_matches(filter, key) => n,
                    _ => self.cfg.seg_count,
                };
                let head = snap.filters.iter().find(|(f, _, _)| f == filter).map_or(0, |(_, h, _)| *h);
                if *count > max {
                    self.viol(
                        "log_keeps_more_segments_than_configured",
                        format!("the log of filter {filter} holds {count} segments, configured are {max}"),
                    );
                    return;
                }
                if head > 0 && *count < max {
                    self.viol(
                        "log_discarded_below_configured_segment_count",
                        format!("the log of filter {filter} has discarded entries (oldest retained offset {head}) while holding {count} of {max} configured segments"),
                    );
                    return;
                }
                self.rep.probe("segment_count_judged");
            }
        }
        let head_of = |filter: &str| -> Option<u64> {
            snap.filters
                .iter()
                .find(|(f, _, _)| f == filter)
                .map(|(_, head, _)| *head)
        };
        // obligations of the possible assignments: the skipped elements must
        // have been discarded by the broker's log
        for conn in 0..self.spec.conns.len() {
            if self.spec.conns[conn].unchecked {
                continue;
            }
            let vecs = std::mem::take(&mut self.spec.conns[conn].posvecs);
            if vecs.iter().all(|v| v.oblig.is_empty()) {
                self.spec.conns[conn].posvecs = vecs;
                continue;
            }
            let mut kept: Vec<PosVec> = Vec::new();
            let mut failed: Option<(usize, usize, usize)> = None;
            for mut v in vecs {
                let mut ok = true;
                for (flog, from, to) in v.oblig.iter() {
                    let head = head_of(&self.spec.flogs[*flog].filter).unwrap_or(0) as usize;
                    if *to > head {
                        ok = false;
                        if failed.is_none() {
                            failed = Some((*flog, (*from).max(head), *to));
                        }
                    }
                }
                if ok {
                    v.oblig.clear();
                    kept.push(v);
                }
            }
            if kept.is_empty() {
                let (flog, first_missing, _) = failed.unwrap();
                let filter = self.spec.flogs[flog].filter.clone();
                let a = &self.spec.accepted[self.spec.flogs[flog].entries[first_missing] as usize];
                let c = self.links[self.spec.conns[conn].link].client;
                let (t, p) = (a.topic.clone(), String::from_utf8_lossy(&a.payload).to_string());
                self.c01_viol(
                    "lost_message:skipped",
                    format!("c{c} never received {t}/{p} on filter {filter} although later messages of that subscription were delivered and the log still retains it"),
                );
                return;
            }
            self.rep.probe("gap_excused_by_retention");
            kept.sort();
            kept.dedup();
            self.spec.conns[conn].posvecs = kept;
        }
        if complete && matches!(self.prop, P::C06 | P::C14) && !self.done() {
            for conn in 0..self.spec.conns.len() {
                let k = &self.spec.conns[conn];
                if !k.alive {
                    continue;
                }
                let l = k.link;
                if self.links[l].state != LState::Up {
                    continue;
                }
                let c = self.links[l].client;
                if self.clients[c].rogue || self.clients[c].stalled {
                    continue;
                }
                if let Some(e) = k.exp_acks.front() {
                    let class = format!("reply_missing_at_quiescence:{}", kind(e));
                    let n = k.exp_acks.len();
                    let e = e.clone();
                    let cs = snap.connections.iter().find(|x| x.client_id == self.clients[c].id);
                    let state = cs
                        .map(|x| format!("status={} scheduled={} inflight={} outgoing={}", x.status, snap.readyqueue.contains(&x.id), x.inflight, x.outgoing_len))
                        .unwrap_or_default();
                    self.viol(
                        class,
                        format!("at quiescence c{c} still awaits {n} repl(y/ies), first {e:?}; broker state: {state}"),
                    );
                    return;
                }
                if let Some(p) = k.exp_pubrels.front() {
                    let p = *p;
                    self.viol(
                        "reply_missing_at_quiescence:pubrel",
                        format!("at quiescence c{c} still awaits PUBREL({p}) for its PUBREC"),
                    );
                    return;
                }
            }
        }
        if complete && self.prop == P::C15 && !self.done() {
            self.check_retained_complete();
            // every request accepted so far has been swept at least once by
            // now: the one-off replay of those subscriptions is over, whatever
            // is flagged retained for them from here on is a violation
            if !self.done() {
                for k in self.spec.conns.iter_mut() {
                    for s in k.session.subs.iter_mut() {
                        if s.retained_t0.is_some() {
                            s.retained_t0 = None;
                            s.replay_closed = true;
                        }
                    }
                }
                for l in self.links.iter_mut() {
                    l.ret_fw.clear();
                }
            }
        }
        if complete && self.prop == P::C17 && !self.done() {
            self.check_groups_complete(snap);
        }
        if !complete || !matches!(self.prop, P::C01 | P::C09 | P::C14 | P::C08 | P::C16) {
            return;
        }
        for conn in 0..self.spec.conns.len() {
            if !self.spec.conns[conn].alive {
                continue;
            }
            let l = self.spec.conns[conn].link;
            if self.links[l].state != LState::Up {
                continue;
            }
            let c = self.links[l].client;
            if self.clients[c].link != Some(l) {
                continue;
            }
            if self.spec.conns[conn].unchecked || self.clients[c].rogue || self.clients[c].stalled {
                continue;
            }
            // complete under SOME possible assignment; otherwise report the
            // assignment with the fewest undelivered required messages
            let missing_of = |spec: &Spec, v: &PosVec| -> usize {
                let mut m = 0;
                for (si, s) in spec.conns[conn].session.subs.iter().enumerate() {
                    if s.gone || s.end.is_some() || s.group.is_some() {
                        continue;
                    }
                    let fl = &spec.flogs[s.flog];
                    let head = head_of(&fl.filter).unwrap_or(0) as usize;
                    let first = v.pos[si].max(head);
                    m += fl.entries.len().saturating_sub(first);
                }
                m
            };
            let best: Vec<usize> = self.spec.conns[conn]
                .posvecs
                .iter()
                .min_by_key(|v| missing_of(&self.spec, v))
                .map(|v| v.pos.clone())
                .unwrap_or_default();
            for si in 0..self.spec.conns[conn].session.subs.len() {
                let s = &self.spec.conns[conn].session.subs[si];
                if s.gone || s.end.is_some() || s.group.is_some() {
                    continue;
                }
                let fl = &self.spec.flogs[s.flog];
                let limit = fl.entries.len();
                let pos = best[si];
                if pos >= limit {
                    continue;
                }
                let head = head_of(&fl.filter).unwrap_or(0) as usize;
                let first_missing = pos.max(head);
                if first_missing >= limit {
                    self.rep.probe("tail_excused_by_retention");
                    continue;
                }
                let a = &self.spec.accepted[fl.entries[first_missing] as usize];
                let (t, p) = (a.topic.clone(), String::from_utf8_lossy(&a.payload).to_string());
                let missing = limit - first_missing;
                // classify the stall from the snapshot (never used to decide)
                let cs = snap.connections.iter().find(|k| k.client_id == self.clients[c].id);
                let state = cs
                    .map(|k| {
                        format!(
                            "status={} scheduled={} tracked={} parked={} inflight={} outgoing={}",
                            k.status,
                            snap.readyqueue.contains(&k.id),
                            k.tracked.len(),
                            k.parked.len(),
                            k.inflight,
                            k.outgoing_len
                        )
                    })
                    .unwrap_or_else(|| "not registered".into());
                let class = match cs {
                    None => "undelivered_at_quiescence:connection_gone",
                    Some(k) if k.status == 0 && !snap.readyqueue.contains(&k.id) => {
                        "undelivered_at_quiescence:ready_but_not_scheduled"
                    }
                    Some(k) if k.status == 0 => "undelivered_at_quiescence:scheduled_but_router_blocked",
                    Some(k) if k.status == 1 && !k.tracked.is_empty() => {
                        "undelivered_at_quiescence:caughtup_with_tracked_request"
                    }
                    Some(k) if k.status == 1 => "undelivered_at_quiescence:parked_not_woken",
                    Some(k) if k.status == 2 => "undelivered_at_quiescence:inflight_full_not_resumed",
                    Some(_) => "undelivered_at_quiescence:busy_not_resumed",
                };
                let path = s.path.clone();
                self.viol(
                    class,
                    format!(
                        "at quiescence c{c} is still owed {missing} message(s) on {path}, first {t}/{p}; broker state: {state}"
                    ),
                );
                return;
            }
        }
    }
}

impl World {
    /// C15 completeness: a new subscription has received the retained
    /// message of every matching topic whose retained value did not change
    /// since the subscription was accepted, if they fit the delivery window.
    fn check_retained_complete(&mut self) {
        for conn in 0..self.spec.conns.len() {
            if !self.spec.conns[conn].alive {
                continue;
            }
            let l = self.spec.conns[conn].link;
            if self.links[l].state != LState::Up || self.clients[self.links[l].client].link != Some(l) {
                continue;
            }
            let c = self.links[l].client;
            if let Err((path, t)) = self.retained_matching(l, conn, true) {
                self.viol(
                    "retained_not_replayed",
                    format!("c{c} subscribed {path} (new subscription) but never received the retained message of {t}, which was set before and unchanged since"),
                );
                return;
            }
        }
    }

    /// C17 completeness: every message accepted while a group had members
    /// has been forwarded to some member.
    fn check_groups_complete(&mut self, snap: &hook::VerifSnapshot) {
        let mut names: Vec<String> = self.spec.groups.keys().cloned().collect();
        names.sort();
        for g in names {
            let gm = &self.spec.groups[&g];
            if gm.mixed {
                continue;
            }
            // at least one member still connected and reading
            let live_member = gm.members.iter().any(|m| {
                let k = &self.spec.conns[*m];
                k.alive && self.links[k.link].state == LState::Up && !self.spec.conns[*m].unchecked
            });
            if !live_member {
                continue;
            }
            let fl = &self.spec.flogs[gm.flog];
            let head = snap
                .filters
                .iter()
                .find(|(f, _, _)| *f == fl.filter)
                .map(|(_, h, _)| *h as usize)
                .unwrap_or(0);
            let from = gm.start.max(head);
            let missing: Vec<usize> = (from..fl.entries.len())
                .filter(|j| !gm.delivered.contains_key(j))
                .collect();
            if let Some(j) = missing.first() {
                let a = &self.spec.accepted[fl.entries[*j] as usize];
                let (t, p) = (a.topic.clone(), String::from_utf8_lossy(&a.payload).to_string());
                let gs = snap.groups.iter().find(|x| x.name == g);
                let state = match gs {
                    None => "group unknown to the broker".to_string(),
                    Some(x) => {
                        let cur = x.current.clone().unwrap_or_default();
                        let cs = snap.connections.iter().find(|k| k.client_id == cur);
                        format!(
                            "broker group members={:?} current={cur} cursor={:?} current-member-state={:?}",
                            x.members,
                            x.cursor,
                            cs.map(|k| (k.status, snap.readyqueue.contains(&k.id), k.tracked.len(), k.parked.len(), k.inflight, k.outgoing_len))
                        )
                    }
                };
                let class = match gs {
                    None => "shared_undelivered_at_quiescence:group_missing_in_broker",
                    Some(x) if x.members.len() < gm.members.len() => "shared_undelivered_at_quiescence:member_missing_in_broker",
                    Some(x) => {
                        // the request of the member whose turn it is sits parked in the
                        // waiters although the group's log has unread messages
                        let cur = x.current.clone().unwrap_or_default();
                        let parked = snap
                            .connections
                            .iter()
                            .find(|k| k.client_id == cur)
                            .map(|k| {
                                let path = format!("$share/{g}/{}", fl.filter);
                                k.parked.iter().any(|(f, _)| *f == path)
                            })
                            .unwrap_or(false);
                        if (*j as u64) < x.cursor.1 {
                            // the group's cursor has moved past a message nobody got
                            "shared_undelivered_at_quiescence:skipped_by_group_cursor"
                        } else if parked {
                            "shared_undelivered_at_quiescence:member_whose_turn_it_is_is_parked"
                        } else {
                            "shared_undelivered_at_quiescence"
                        }
                    }
                };
                let n = missing.len();
                let members = gm.members.len();
                self.viol(
                    class,
                    format!("at quiescence {n} message(s) accepted for group {g} ({members} member(s)) were forwarded to no member, first {t}/{p}; {state}"),
                );
                return;
            }
        }
    }
}

/// C03 (3): after everything, a fresh client can connect, subscribe, publish
/// to itself and receive its message.
fn probe_client(router: &mut Router, world: &Rc<RefCell<World>>) {
    let c;
    {
        let mut w = world.borrow_mut();
        if w.done() {
            return;
        }
        c = w.clients.len();
        w.clients.push(Client {
            id: "probe".to_string(),
            clean: true,
            link: None,
            next_pkid: 0,
            pace: Pace::Eager,
            out_unacked: 0,
            connects: 0,
            has_will: false,
            subscribed: Vec::new(),
            rogue: false,
            stalled: false,
        });
        tr!(w.rep, "-- probe client");
        // no random client or link actions while the probe runs
        w.quiescing = true;
        w.yield_budget = 0;
        w.connect(c);
    }
    if !run_to_idle(router, world) {
        return;
    }
    let l;
    {
        let mut w = world.borrow_mut();
        let Some(link) = w.clients[c].link else { return };
        l = link;
        w.finish(l);
        if w.done() {
            return;
        }
        if w.links[l].state != LState::Up {
            if w.links[l].refused_expected == Some("max_connections") {
                w.rep.probe("probe_refused_for_capacity");
                return;
            }
            w.viol(
                "probe_client_not_accepted",
                "after the run a fresh client could not register with the broker".to_string(),
            );
            return;
        }
        w.push_quiet(
            l,
            SimPkt::Subscribe {
                pkid: 1,
                filters: vec![("probe/t".to_string(), 0)],
                sub_id: None,
            },
        );
        w.push_quiet(
            l,
            SimPkt::Publish {
                topic: b"probe/t".to_vec(),
                payload: b"probe".to_vec(),
                qos: 0,
                pkid: 0,
                retain: false,
            },
        );
        w.notify(l);
    }
    if !run_to_idle(router, world) {
        return;
    }
    let mut w = world.borrow_mut();
    w.drain(l);
    if w.done() {
        return;
    }
    if w.links[l].forwards_seen == 0 {
        w.viol(
            "probe_client_not_served",
            "after the run a fresh client subscribed and published to itself but received nothing".to_string(),
        );
    } else {
        w.rep.probe("probe_client_served");
    }
}

pub fn run(prop: P, tier: Tier, ch: &mut Choices, rep: &mut RunReport) -> Outcome {
    if prop == P::C08 {
        return run_c08(tier, ch, rep);
    }
    run_single(prop, tier, ch, rep, None)
}

/// C08 (fault enumeration): one seeded history, re-executed once for every
/// step index at which the persistent subscriber's connection is ended and
/// for each of the four ways of ending it. A replayed or shrunk log selects a
/// single crash point instead (first three choices: 1, step, way).
fn run_c08(tier: Tier, ch: &mut Choices, rep: &mut RunReport) -> Outcome {
    let mode = ch.pick_forced(2, 0);
    if mode == 1 {
        let k = ch.pick(401);
        let w = ch.pick(4) as u8;
        return run_single(P::C08, tier, ch, rep, Some((k, w)));
    }
    let mut base = ch.clone();
    base.log.clear();
    let n = {
        let mut scratch = base.clone();
        RunCfg::draw(P::C08, tier, &mut scratch).max_steps
    };
    let mut any_nontrivial = false;
    let mut first = true;
    for k in 0..n {
        for w in 0..4u8 {
            let mut sub = base.clone();
            let mut subrep = RunReport::new(first && rep.lines.is_some());
            crate::core::heartbeat();
            let out = run_single(P::C08, tier, &mut sub, &mut subrep, Some((k, w)));
            crate::core::fnv(&mut rep.hash, &subrep.hash.to_le_bytes());
            rep.steps += subrep.steps;
            rep.crash_points += 1;
            any_nontrivial |= subrep.nontrivial;
            for (key, v) in subrep.faults.iter() {
                *rep.faults.entry(key).or_insert(0) += v;
            }
            for (key, v) in subrep.probes.iter() {
                *rep.probes.entry(key).or_insert(0) += v;
            }
            rep.states.extend(subrep.states.iter().copied());
            if first {
                rep.config = subrep.config.clone();
                if let (Some(dst), Some(src)) = (rep.lines.as_mut(), subrep.lines.take()) {
                    dst.push(format!("== crash point step={k} way={w} (first of {} x 4)", n));
                    dst.extend(src);
                }
                first = false;
            }
            match out {
                Outcome::Ok => {}
                Outcome::Foreign(f) => {
                    let mut log = vec![1u32, k, w as u32];
                    log.extend(sub.log.iter().copied());
                    ch.log = log;
                    return Outcome::Foreign(f);
                }
                Outcome::Violation(v) => {
                    // the log that replays exactly this crash point
                    let mut log = vec![1u32, k, w as u32];
                    log.extend(sub.log.iter().copied());
                    ch.log = log;
                    return Outcome::Violation(v);
                }
            }
        }
    }
    rep.nontrivial = any_nontrivial;
    Outcome::Ok
}

fn run_single(
    prop: P,
    tier: Tier,
    ch: &mut Choices,
    rep: &mut RunReport,
    kill: Option<(u32, u8)>,
) -> Outcome {
    let cfg = RunCfg::draw(prop, tier, ch);
    let config = RouterConfig {
        max_connections: cfg.max_connections,
        max_outgoing_packet_count: cfg.max_outgoing,
        max_segment_size: cfg.seg_size,
        max_segment_count: cfg.seg_count,
        // small-retention runs with an even number of topics also carry a per-filter
        // override (one key, so that the HashMap order of the option cannot matter):
        // everything under a/ keeps two segments more than the default
        custom_segment: custom_segment_of(&cfg).map(|(k, n)| {
            let mut m = std::collections::HashMap::new();
            m.insert(
                k.to_string(),
                rumqttd::SegmentConfig {
                    max_segment_size: cfg.seg_size,
                    max_segment_count: n,
                },
            );
            m
        }),
        initialized_filters: None,
        shared_subscriptions_strategy: match cfg.strategy {
            0 => Strategy::RoundRobin,
            1 => Strategy::Random,
            _ => Strategy::Sticky,
        },
    };
    hook::set_installed(true);
    let _guard = HookGuard;
    let mut router = Router::new(0, config);
    let router_tx = router.verif_link();

    let mut world = World {
        prop,
        cfg: cfg.clone(),
        ch: std::mem::replace(ch, Choices::replay(0, Vec::new())),
        rep: std::mem::replace(rep, RunReport::new(false)),
        router_tx,
        links: Vec::new(),
        clients: Vec::new(),
        spec: Spec::new(cfg.max_connections),
        evq: VecDeque::new(),
        pending_obs: None,
        violation: None,
        foreign: None,
        yield_budget: cfg.yield_budget,
        quiescing: false,
        quiesce_incomplete: false,
        next_seq: 1,
        router_blocked: false,
        sub_id_counter: 0,
        forwards_total: 0,
        link_wills: Vec::new(),
        abandoned: Vec::new(),
        last_attr: None,
        meter_rx: Vec::new(),
        alert_rx: Vec::new(),
    };
    world.rep.config = format!("{cfg:?}");
    tr!(world.rep, "cfg {:?}", cfg);
    for c in 0..cfg.n_clients {
        let pace = match world.ch.pick(6) {
            0 | 1 => Pace::Eager,
            2 => Pace::Lazy,
            3 => Pace::Burst(world.ch.range(2, 40)),
            4 => Pace::Withhold,
            _ => Pace::Eager,
        };
        let clean = if prop == P::C08 {
            c != 0
        } else {
            !(cfg.persistent && world.ch.coin(1, 2))
        };
        let has_will = cfg.wills && world.ch.coin(1, 2);
        let rogue = cfg.rogue && c >= cfg.good_clients;
        let stalled = rogue && world.ch.coin(1, 4);
        world.clients.push(Client {
            id: format!("client{c}"),
            clean,
            link: None,
            next_pkid: 0,
            pace,
            out_unacked: 0,
            connects: 0,
            has_will,
            subscribed: Vec::new(),
            rogue,
            stalled,
        });
    }
    let world = Rc::new(RefCell::new(world));

    // hooks
    {
        let w = world.clone();
        hook::set_yield(Some(Box::new(move |site| {
            let mut w = w.borrow_mut();
            w.on_site(site);
            if matches!(site, Site::Event { .. }) || w.done() {
                return;
            }
            if w.yield_budget > 0 {
                let den = w.cfg.yield_den;
                if w.ch.coin(1, den) && !w.enabled().is_empty() {
                    w.yield_budget -= 1;
                    w.rep.probe("yield_point_step");
                    tr!(w.rep, "  (at {site:?})");
                    w.step_non_router();
                }
            }
        })));
        let w2 = world.clone();
        hook::set_choose(Some(Box::new(move |n| {
            let mut w = w2.borrow_mut();
            w.ch.pick(n as u32) as usize
        })));
    }

    let max_steps = cfg.max_steps;
    let mut alive = true;
    let mut quiesce_points = 0;
    for step in 0..max_steps {
        if world.borrow().done() {
            break;
        }
        if let Some((k, way)) = kill {
            if k == step {
                world.borrow_mut().kill_subscriber(way);
            }
            // in runs that alternate the clean-session flag a third of the crash
            // points get a second end a little later (DISCONNECT or link failure), so
            // that one client id lives three times: persistent / clean / persistent
            // and the other orders
            if cfg.alternate_clean && k % 3 == 0 && step == k + 12 {
                world.borrow_mut().rep.probe("second_end_of_the_persistent_subscriber");
                world.borrow_mut().kill_subscriber((way + 1) % 2);
            }
        }
        let pick_router = {
            let mut w = world.borrow_mut();
            let router_enabled = !w.router_blocked || !w.evq.is_empty();
            let acts = w.enabled();
            let total: u32 = acts.iter().map(|a| a.1).sum();
            if !router_enabled && total == 0 {
                // nothing can happen any more
                break;
            }
            if !router_enabled {
                false
            } else if total == 0 {
                true
            } else {
                let wr = w.cfg.w_router * 3;
                w.ch.pick(wr + total) < wr
            }
        };
        if pick_router {
            match router_step(&mut router, &world) {
                RouterStep::Dead => {
                    alive = false;
                    break;
                }
                _ => {
                    let fp = fingerprint(&router);
                    world.borrow_mut().rep.state(fp);
                }
            }
        } else {
            let mut w = world.borrow_mut();
            w.step_non_router();
            w.service_abandoned();
        }
        // seeded mid-run quiescence points
        let do_q = {
            let mut w = world.borrow_mut();
            w.cfg.mid_quiesce && quiesce_points < if prop == P::C15 { 5 } else { 2 } && w.ch.coin(1, if prop == P::C15 { 25 } else { 60 })
        };
        if do_q && !world.borrow().done() {
            quiesce_points += 1;
            if !quiesce(&mut router, &world) {
                alive = false;
                break;
            }
            let snap = router.verif_snapshot();
            let complete = !world.borrow().quiesce_incomplete;
            world.borrow_mut().check_at_quiescence(&snap, complete);
            world.borrow_mut().rep.probe("mid_run_quiescence");
        }
    }
    if alive && !world.borrow().done() {
        if quiesce(&mut router, &world) {
            let snap = router.verif_snapshot();
            let mut w = world.borrow_mut();
            let complete = !w.quiesce_incomplete;
            w.check_at_quiescence(&snap, complete);
            let fp = fingerprint(&router);
            w.rep.state(fp);
        }
        if prop == P::C03 {
            probe_client(&mut router, &world);
        }
    }

    hook::uninstall();
    let mut w = match Rc::try_unwrap(world) {
        Ok(w) => w.into_inner(),
        Err(_) => panic!("harness: world still shared"),
    };
    w.rep.nontrivial = w.forwards_total > 0 && w.spec.conns.len() >= 2;
    *ch = std::mem::replace(&mut w.ch, Choices::replay(0, Vec::new()));
    *rep = std::mem::replace(&mut w.rep, RunReport::new(false));
    drop(router);
    if let Some(v) = w.violation.take() {
        return Outcome::Violation(v);
    }
    if let Some(f) = w.foreign.take() {
        if std::env::var("VERIF_DEBUG_FOREIGN").is_ok() {
            // debugging aid: look at what a foreign abort was
            return Outcome::Violation(Violation {
                property: prop.id(),
                class: format!("DEBUG-foreign:{f}"),
                message: f,
            });
        }
        return Outcome::Foreign(f);
    }
    Outcome::Ok
}
