//! netsim: the whole broker on one thread under virtual time.
//!
//! Real: the per-connection task `remote()` (through `Server::verif_accept`),
//! `mqtt_connect`, `handle_auth`, `RemoteLink`, `Network<V4|V5>`, both broker
//! codecs, `LinkBuilder::build` (with the block point stepping the router),
//! the whole router. Stub: the TCP accept loop (an in-memory duplex stream is
//! handed to `verif_accept`), the router thread (a task calling the real
//! `run_inner`, then sleeping a seeded 0-3 virtual ms); clients are scripted
//! byte writers/readers using the rumqttc codecs. TLS, websockets, console,
//! bridge are not run.

use crate::choices::Choices;
use crate::core::{guarded, Outcome, RunReport, Tier, Violation};
use crate::tr;
use bytes::{Bytes, BytesMut};
use rumqttc::mqttbytes::v4 as c4;
use rumqttc::v5::mqttbytes::v5 as c5;
use rumqttd::protocol::v4::V4;
use rumqttd::protocol::v5::V5;
use rumqttd::verif as hook;
use rumqttd::{ConnectionSettings, Router, RouterConfig, Server, ServerSettings};
use std::cell::{Cell, RefCell};
use std::collections::HashMap;
use std::rc::Rc;
use std::time::Duration;
use tokio::io::{AsyncReadExt, AsyncWriteExt, DuplexStream};

#[derive(Debug, Clone, Copy, PartialEq, Eq)]
pub enum NP {
    C16,
    C19,
    C20,
}

impl NP {
    fn id(self) -> &'static str {
        match self {
            NP::C16 => "C16",
            NP::C19 => "C19",
            NP::C20 => "C20",
        }
    }
}

// ---------------------------------------------------------------------------
// shared state of one run
// ---------------------------------------------------------------------------

struct Shared {
    prop: NP,
    router: RefCell<Router>,
    router_tx: flume::Sender<(usize, hook::Event)>,
    blocked: Cell<bool>,
    dead: Cell<bool>,
    router_panic: RefCell<Option<(String, String)>>,
    ch: RefCell<Choices>,
    rep: RefCell<RunReport>,
    violation: RefCell<Option<Violation>>,
    foreign: RefCell<Option<String>>,
    tasks: RefCell<Vec<(String, tokio::task::JoinHandle<()>)>>,
}

impl Shared {
    fn viol(&self, class: impl Into<String>, message: impl Into<String>) {
        if self.violation.borrow().is_none() {
            let class = class.into();
            let message = message.into();
            tr!(self.rep.borrow_mut(), "VIOLATION [{class}] {message}");
            *self.violation.borrow_mut() = Some(Violation {
                property: self.prop.id(),
                class,
                message,
            });
        }
    }

    fn done(&self) -> bool {
        self.violation.borrow().is_some() || self.foreign.borrow().is_some()
    }

    fn pick(&self, n: u32) -> u32 {
        self.ch.borrow_mut().pick(n)
    }

    fn coin(&self, a: u32, b: u32) -> bool {
        self.ch.borrow_mut().coin(a, b)
    }

    fn trace(&self, s: String) {
        tr!(self.rep.borrow_mut(), "{s}");
    }

    fn probe(&self, p: &'static str) {
        self.rep.borrow_mut().probe(p);
    }

    fn fault(&self, p: &'static str) {
        self.rep.borrow_mut().fault(p);
    }

    fn step_router(&self) {
        if self.dead.get() {
            return;
        }
        let r = guarded(|| self.router.borrow_mut().verif_run_inner());
        match r {
            Ok(Ok(idle)) => self.blocked.set(idle),
            Ok(Err(e)) => {
                self.dead.set(true);
                *self.router_panic.borrow_mut() = Some(("router_terminated".into(), e.to_string()));
            }
            Err((loc, msg)) => {
                self.dead.set(true);
                *self.router_panic.borrow_mut() = Some((format!("panic:{loc}"), msg));
            }
        }
    }
}

fn server_settings(name: &str, conn: ConnectionSettings) -> ServerSettings {
    ServerSettings {
        name: name.to_string(),
        listen: "127.0.0.1:1883".parse().unwrap(),
        tls: None,
        next_connection_delay_ms: 0,
        connections: conn,
    }
}

struct Listeners {
    v4: Server<V4>,
    v5: Server<V5>,
}

/// Accepts an in-memory connection on the v4 or v5 listener; returns the
/// client's end of the stream.
fn accept(sh: &Rc<Shared>, ls: &Listeners, v5: bool, name: &str) -> DuplexStream {
    let (client, server) = tokio::io::duplex(64 * 1024);
    let fut: std::pin::Pin<Box<dyn std::future::Future<Output = ()>>> = if v5 {
        Box::pin(ls.v5.verif_accept(Box::new(server), None))
    } else {
        Box::pin(ls.v4.verif_accept(Box::new(server), None))
    };
    let h = tokio::task::spawn_local(fut);
    sh.tasks.borrow_mut().push((name.to_string(), h));
    client
}

// ---------------------------------------------------------------------------
// scripted client
// ---------------------------------------------------------------------------

#[derive(Debug, Clone, Default)]
struct PubProps {
    payload_format_indicator: Option<u8>,
    message_expiry_interval: Option<u32>,
    topic_alias: Option<u16>,
    response_topic: Option<String>,
    correlation_data: Option<Vec<u8>>,
    user_properties: Vec<(String, String)>,
    subscription_identifiers: Vec<usize>,
    content_type: Option<String>,
}

impl PubProps {
    fn is_empty(&self) -> bool {
        self.payload_format_indicator.is_none()
            && self.message_expiry_interval.is_none()
            && self.topic_alias.is_none()
            && self.response_topic.is_none()
            && self.correlation_data.is_none()
            && self.user_properties.is_empty()
            && self.subscription_identifiers.is_empty()
            && self.content_type.is_none()
    }

    fn to_c5(&self) -> c5::PublishProperties {
        c5::PublishProperties {
            payload_format_indicator: self.payload_format_indicator,
            message_expiry_interval: self.message_expiry_interval,
            topic_alias: self.topic_alias,
            response_topic: self.response_topic.clone(),
            correlation_data: self.correlation_data.clone().map(Bytes::from),
            user_properties: self.user_properties.clone(),
            subscription_identifiers: self.subscription_identifiers.clone(),
            content_type: self.content_type.clone(),
        }
    }

    fn from_c5(p: &c5::PublishProperties) -> PubProps {
        PubProps {
            payload_format_indicator: p.payload_format_indicator,
            message_expiry_interval: p.message_expiry_interval,
            topic_alias: p.topic_alias,
            response_topic: p.response_topic.clone(),
            correlation_data: p.correlation_data.as_ref().map(|b| b.to_vec()),
            user_properties: p.user_properties.clone(),
            subscription_identifiers: p.subscription_identifiers.clone(),
            content_type: p.content_type.clone(),
        }
    }
}

#[derive(Debug, Clone)]
enum Rx {
    ConnAck {
        ok: bool,
        session_present: bool,
    },
    SubAck(u16),
    UnsubAck(u16),
    PubAck(u16),
    PubRec(u16),
    PubRel(u16),
    PubComp(u16),
    PingResp,
    Publish {
        topic: String,
        payload: Vec<u8>,
        qos: u8,
        pkid: u16,
        retain: bool,
        props: Option<PubProps>,
    },
    Disconnect,
    Other(String),
    Closed,
    Timeout,
    Bad(String),
}

struct Cli {
    io: Option<DuplexStream>,
    rbuf: BytesMut,
    v5: bool,
    name: String,
    aliases: HashMap<u16, String>,
}

fn q4(q: u8) -> rumqttc::mqttbytes::QoS {
    match q {
        0 => rumqttc::mqttbytes::QoS::AtMostOnce,
        1 => rumqttc::mqttbytes::QoS::AtLeastOnce,
        _ => rumqttc::mqttbytes::QoS::ExactlyOnce,
    }
}

fn q5(q: u8) -> rumqttc::v5::mqttbytes::QoS {
    match q {
        0 => rumqttc::v5::mqttbytes::QoS::AtMostOnce,
        1 => rumqttc::v5::mqttbytes::QoS::AtLeastOnce,
        _ => rumqttc::v5::mqttbytes::QoS::ExactlyOnce,
    }
}

#[derive(Debug, Clone, Default)]
struct ConnectSpec {
    id: String,
    clean: bool,
    keep_alive: u16,
    login: Option<(String, String)>,
    will: Option<(String, Vec<u8>, u8, bool)>,
    topic_alias_max: Option<u16>,
    receive_maximum: Option<u16>,
}

fn connect_bytes(v5: bool, c: &ConnectSpec) -> Vec<u8> {
    let mut b = BytesMut::new();
    if v5 {
        let mut props = None;
        if c.topic_alias_max.is_some() || c.receive_maximum.is_some() {
            let mut p = c5::ConnectProperties::new();
            p.topic_alias_max = c.topic_alias_max;
            p.receive_maximum = c.receive_maximum;
            props = Some(p);
        }
        let connect = c5::Connect {
            keep_alive: c.keep_alive,
            client_id: c.id.clone(),
            clean_start: c.clean,
            properties: props,
        };
        let will = c
            .will
            .as_ref()
            .map(|(t, p, q, r)| c5::LastWill::new(t.clone(), p.clone(), q5(*q), *r, None));
        let login = c.login.as_ref().map(|(u, p)| c5::Login::new(u.clone(), p.clone()));
        c5::Packet::Connect(connect, will, login)
            .write(&mut b, None)
            .expect("encode connect v5");
    } else {
        let mut connect = c4::Connect::new(c.id.clone());
        connect.keep_alive = c.keep_alive;
        connect.clean_session = c.clean;
        connect.last_will = c
            .will
            .as_ref()
            .map(|(t, p, q, r)| c4::LastWill::new(t.clone(), p.clone(), q4(*q), *r));
        connect.login = c.login.as_ref().map(|(u, p)| c4::Login::new(u.clone(), p.clone()));
        c4::Packet::Connect(connect)
            .write(&mut b, usize::MAX)
            .expect("encode connect v4");
    }
    b.to_vec()
}

fn publish_bytes(
    v5: bool,
    topic: &str,
    payload: &[u8],
    qos: u8,
    pkid: u16,
    retain: bool,
    props: Option<&PubProps>,
) -> Vec<u8> {
    let mut b = BytesMut::new();
    if v5 {
        let mut p = c5::Publish::new(topic, q5(qos), payload.to_vec(), props.map(|p| p.to_c5()));
        p.pkid = pkid;
        p.retain = retain;
        c5::Packet::Publish(p).write(&mut b, None).expect("encode publish v5");
    } else {
        let mut p = c4::Publish::new(topic, q4(qos), payload.to_vec());
        p.pkid = pkid;
        p.retain = retain;
        c4::Packet::Publish(p)
            .write(&mut b, usize::MAX)
            .expect("encode publish v4");
    }
    b.to_vec()
}

fn subscribe_bytes(v5: bool, pkid: u16, filter: &str, qos: u8, sub_id: Option<usize>) -> Vec<u8> {
    let mut b = BytesMut::new();
    if v5 {
        let props = sub_id.map(|id| c5::SubscribeProperties {
            id: Some(id),
            user_properties: vec![],
        });
        let mut s = c5::Subscribe::new(c5::Filter::new(filter, q5(qos)), props);
        s.pkid = pkid;
        c5::Packet::Subscribe(s).write(&mut b, None).expect("encode subscribe v5");
    } else {
        let mut s = c4::Subscribe::new(filter, q4(qos));
        s.pkid = pkid;
        c4::Packet::Subscribe(s)
            .write(&mut b, usize::MAX)
            .expect("encode subscribe v4");
    }
    b.to_vec()
}

fn unsubscribe_bytes(v5: bool, pkid: u16, filter: &str) -> Vec<u8> {
    let mut b = BytesMut::new();
    if v5 {
        let mut u = c5::Unsubscribe::new(filter, None);
        u.pkid = pkid;
        c5::Packet::Unsubscribe(u).write(&mut b, None).expect("encode unsubscribe v5");
    } else {
        let mut u = c4::Unsubscribe::new(filter);
        u.pkid = pkid;
        c4::Packet::Unsubscribe(u)
            .write(&mut b, usize::MAX)
            .expect("encode unsubscribe v4");
    }
    b.to_vec()
}

/// kind: 0 PUBACK 1 PUBREC 2 PUBREL 3 PUBCOMP
fn ack_bytes(v5: bool, kind: u8, pkid: u16) -> Vec<u8> {
    let mut b = BytesMut::new();
    if v5 {
        let p = match kind {
            0 => c5::Packet::PubAck(c5::PubAck::new(pkid, None)),
            1 => c5::Packet::PubRec(c5::PubRec::new(pkid, None)),
            2 => c5::Packet::PubRel(c5::PubRel::new(pkid, None)),
            _ => c5::Packet::PubComp(c5::PubComp::new(pkid, None)),
        };
        p.write(&mut b, None).expect("encode ack v5");
    } else {
        let p = match kind {
            0 => c4::Packet::PubAck(c4::PubAck::new(pkid)),
            1 => c4::Packet::PubRec(c4::PubRec::new(pkid)),
            2 => c4::Packet::PubRel(c4::PubRel::new(pkid)),
            _ => c4::Packet::PubComp(c4::PubComp::new(pkid)),
        };
        p.write(&mut b, usize::MAX).expect("encode ack v4");
    }
    b.to_vec()
}

fn pingreq_bytes() -> Vec<u8> {
    vec![0xc0, 0x00]
}

fn disconnect_bytes() -> Vec<u8> {
    vec![0xe0, 0x00]
}

impl Cli {
    fn new(io: DuplexStream, v5: bool, name: &str) -> Cli {
        Cli {
            io: Some(io),
            rbuf: BytesMut::new(),
            v5,
            name: name.to_string(),
            aliases: HashMap::new(),
        }
    }

    async fn send(&mut self, bytes: &[u8]) -> bool {
        match self.io.as_mut() {
            Some(io) => io.write_all(bytes).await.is_ok(),
            None => false,
        }
    }

    fn close(&mut self) {
        self.io = None;
    }

    fn decode(&mut self) -> Option<Rx> {
        if self.rbuf.is_empty() {
            return None;
        }
        if self.v5 {
            match c5::Packet::read(&mut self.rbuf, None) {
                Ok(p) => Some(match p {
                    c5::Packet::ConnAck(c) => Rx::ConnAck {
                        ok: c.code == c5::ConnectReturnCode::Success,
                        session_present: c.session_present,
                    },
                    c5::Packet::SubAck(s) => Rx::SubAck(s.pkid),
                    c5::Packet::UnsubAck(s) => Rx::UnsubAck(s.pkid),
                    c5::Packet::PubAck(s) => Rx::PubAck(s.pkid),
                    c5::Packet::PubRec(s) => Rx::PubRec(s.pkid),
                    c5::Packet::PubRel(s) => Rx::PubRel(s.pkid),
                    c5::Packet::PubComp(s) => Rx::PubComp(s.pkid),
                    c5::Packet::PingResp(_) => Rx::PingResp,
                    c5::Packet::Disconnect(_) => Rx::Disconnect,
                    c5::Packet::Publish(p) => {
                        let mut topic = String::from_utf8_lossy(&p.topic).to_string();
                        // resolve a broker-assigned topic alias the way an MQTT 5 client does
                        if let Some(a) = p.properties.as_ref().and_then(|x| x.topic_alias) {
                            if topic.is_empty() {
                                topic = self.aliases.get(&a).cloned().unwrap_or_else(|| format!("<unknown alias {a}>"));
                            } else {
                                self.aliases.insert(a, topic.clone());
                            }
                        }
                        Rx::Publish {
                            topic,
                            payload: p.payload.to_vec(),
                            qos: p.qos as u8,
                            pkid: p.pkid,
                            retain: p.retain,
                            props: p.properties.as_ref().map(PubProps::from_c5),
                        }
                    }
                    other => Rx::Other(format!("{other:?}")),
                }),
                Err(rumqttc::v5::mqttbytes::Error::InsufficientBytes(_)) => None,
                Err(e) => {
                    self.rbuf.clear();
                    Some(Rx::Bad(format!("{e:?}")))
                }
            }
        } else {
            match c4::Packet::read(&mut self.rbuf, usize::MAX) {
                Ok(p) => Some(match p {
                    c4::Packet::ConnAck(c) => Rx::ConnAck {
                        ok: c.code == c4::ConnectReturnCode::Success,
                        session_present: c.session_present,
                    },
                    c4::Packet::SubAck(s) => Rx::SubAck(s.pkid),
                    c4::Packet::UnsubAck(s) => Rx::UnsubAck(s.pkid),
                    c4::Packet::PubAck(s) => Rx::PubAck(s.pkid),
                    c4::Packet::PubRec(s) => Rx::PubRec(s.pkid),
                    c4::Packet::PubRel(s) => Rx::PubRel(s.pkid),
                    c4::Packet::PubComp(s) => Rx::PubComp(s.pkid),
                    c4::Packet::PingResp => Rx::PingResp,
                    c4::Packet::Disconnect => Rx::Disconnect,
                    c4::Packet::Publish(p) => Rx::Publish {
                        topic: p.topic.clone(),
                        payload: p.payload.to_vec(),
                        qos: p.qos as u8,
                        pkid: p.pkid,
                        retain: p.retain,
                        props: None,
                    },
                    other => Rx::Other(format!("{other:?}")),
                }),
                Err(rumqttc::mqttbytes::Error::InsufficientBytes(_)) => None,
                Err(e) => {
                    self.rbuf.clear();
                    Some(Rx::Bad(format!("{e:?}")))
                }
            }
        }
    }

    /// Next packet from the broker, waiting at most `wait` of virtual time.
    async fn recv(&mut self, wait: Duration) -> Rx {
        let deadline = tokio::time::Instant::now() + wait;
        loop {
            if let Some(rx) = self.decode() {
                return rx;
            }
            let Some(io) = self.io.as_mut() else {
                return Rx::Closed;
            };
            let mut tmp = [0u8; 4096];
            match tokio::time::timeout_at(deadline, io.read(&mut tmp)).await {
                Err(_) => return Rx::Timeout,
                Ok(Ok(0)) | Ok(Err(_)) => {
                    // bytes received before the close are still decoded above
                    if self.rbuf.is_empty() {
                        return Rx::Closed;
                    }
                    let r = self.decode();
                    return r.unwrap_or(Rx::Closed);
                }
                Ok(Ok(n)) => self.rbuf.extend_from_slice(&tmp[..n]),
            }
        }
    }
}

async fn sleep_ms(ms: u64) {
    tokio::time::sleep(Duration::from_millis(ms)).await;
}

// ---------------------------------------------------------------------------
// building a run
// ---------------------------------------------------------------------------

struct NetCfg {
    max_connections: usize,
    conn4: ConnectionSettings,
    conn5: ConnectionSettings,
}

fn base_conn(timeout_ms: u16) -> ConnectionSettings {
    ConnectionSettings {
        connection_timeout_ms: timeout_ms,
        max_payload_size: 20 * 1024,
        max_inflight_count: 100,
        auth: None,
        external_auth: None,
        dynamic_filters: false,
    }
}

/// Runs `scenario` inside a fresh single-threaded runtime with paused clock,
/// the router task and both listeners.
fn with_broker<F, Fut>(
    prop: NP,
    ch: &mut Choices,
    rep: &mut RunReport,
    cfg: NetCfg,
    scenario: F,
) -> Outcome
where
    F: FnOnce(Rc<Shared>, Rc<Listeners>) -> Fut,
    Fut: std::future::Future<Output = ()>,
{
    let seed = {
        let mut b = [0u8; 8];
        for x in b.iter_mut() {
            *x = ch.pick(256) as u8;
        }
        b
    };
    let rt = tokio::runtime::Builder::new_current_thread()
        .enable_time()
        .start_paused(true)
        .rng_seed(tokio::runtime::RngSeed::from_bytes(&seed))
        .build()
        .expect("runtime");
    hook::set_installed(true);
    struct Guard;
    impl Drop for Guard {
        fn drop(&mut self) {
            hook::uninstall();
        }
    }
    let _g = Guard;
    let config = RouterConfig {
        max_connections: cfg.max_connections,
        max_outgoing_packet_count: 200,
        max_segment_size: 64 * 1024 * 1024,
        max_segment_count: 10,
        custom_segment: None,
        initialized_filters: None,
        shared_subscriptions_strategy: Default::default(),
    };
    let router = Router::new(0, config);
    let router_tx = router.verif_link();
    let sh = Rc::new(Shared {
        prop,
        router: RefCell::new(router),
        router_tx: router_tx.clone(),
        blocked: Cell::new(false),
        dead: Cell::new(false),
        router_panic: RefCell::new(None),
        ch: RefCell::new(std::mem::replace(ch, Choices::replay(0, Vec::new()))),
        rep: RefCell::new(std::mem::replace(rep, RunReport::new(false))),
        violation: RefCell::new(None),
        foreign: RefCell::new(None),
        tasks: RefCell::new(Vec::new()),
    });
    {
        let s2 = sh.clone();
        hook::set_block(Some(Box::new(move || s2.step_router())));
        let s3 = sh.clone();
        hook::set_choose(Some(Box::new(move |n| s3.pick(n as u32) as usize)));
    }
    let ls = Rc::new(Listeners {
        v4: Server::new(server_settings("v4", cfg.conn4), router_tx.clone(), V4),
        v5: Server::new(server_settings("v5", cfg.conn5), router_tx, V5),
    });
    let local = tokio::task::LocalSet::new();
    let start = tokio::time::Instant::now();
    let sh2 = sh.clone();
    rt.block_on(local.run_until(async move {
        // the router "thread"
        let s = sh2.clone();
        let router_task = tokio::task::spawn_local(async move {
            let mut idle_rounds = 0u32;
            loop {
                if s.dead.get() {
                    break;
                }
                if !s.blocked.get() || !s.router_tx.is_empty() {
                    s.step_router();
                    idle_rounds = 0;
                } else {
                    idle_rounds += 1;
                }
                let d = if idle_rounds > 20 { 20 } else { s.pick(4) as u64 };
                sleep_ms(d).await;
            }
        });
        scenario(sh2.clone(), ls).await;
        router_task.abort();
        // per-connection tasks must not have panicked
        let tasks: Vec<(String, tokio::task::JoinHandle<()>)> = sh2.tasks.borrow_mut().drain(..).collect();
        for (name, h) in tasks {
            if h.is_finished() {
                if let Err(e) = h.await {
                    if e.is_panic() {
                        let (loc, msg) = crate::core::take_last_panic().unwrap_or(("?".into(), "?".into()));
                        let loc = crate::core::short_loc(&loc);
                        let m = format!("the per-connection task of {name} panicked at {loc}: {msg}");
                        match sh2.prop {
                            NP::C20 | NP::C19 => sh2.viol(format!("connection_task_panic:{loc}"), m),
                            _ => {
                                if sh2.foreign.borrow().is_none() {
                                    *sh2.foreign.borrow_mut() = Some(format!("task_panic:{loc}"));
                                }
                            }
                        }
                    }
                }
            } else {
                h.abort();
            }
        }
        let elapsed = tokio::time::Instant::now() - start;
        sh2.rep.borrow_mut().sim_time_ms += elapsed.as_millis() as u64;
    }));
    drop(local);
    drop(rt);
    hook::uninstall();
    if let Some((class, msg)) = sh.router_panic.borrow_mut().take() {
        // the routing core died: C03's business
        if sh.violation.borrow().is_none() {
            *sh.foreign.borrow_mut() = Some(format!("router:{class}:{msg}"));
        }
    }
    let sh = match Rc::try_unwrap(sh) {
        Ok(s) => s,
        Err(_) => panic!("harness: netsim shared state still referenced"),
    };
    *ch = sh.ch.into_inner();
    *rep = sh.rep.into_inner();
    if let Some(v) = sh.violation.into_inner() {
        return Outcome::Violation(v);
    }
    if let Some(f) = sh.foreign.into_inner() {
        return Outcome::Foreign(f);
    }
    Outcome::Ok
}

async fn connect_ok(cli: &mut Cli, spec: &ConnectSpec) -> bool {
    let b = connect_bytes(cli.v5, spec);
    if !cli.send(&b).await {
        return false;
    }
    matches!(cli.recv(Duration::from_secs(2)).await, Rx::ConnAck { ok: true, .. })
}

// ---------------------------------------------------------------------------
// C19: admission
// ---------------------------------------------------------------------------

#[derive(Debug, Clone, Copy, PartialEq, Eq)]
enum First {
    Connect,
    ConnectOtherVersion,
    NonConnect,
    Garbage,
    Nothing,
}

fn ext_verdict(client_id: &str, user: &str, pass: &str) -> bool {
    // deterministic "external" authenticator
    let mut h: u64 = 0xcbf2_9ce4_8422_2325;
    crate::core::fnv(&mut h, client_id.as_bytes());
    crate::core::fnv(&mut h, user.as_bytes());
    crate::core::fnv(&mut h, pass.as_bytes());
    h % 2 == 0
}

fn run_c19(ch: &mut Choices, rep: &mut RunReport) -> Outcome {
    let v5 = ch.coin(1, 2);
    let auth_mode = ch.pick(4); // 0 none 1 static 2 external 3 both
    let timeout_ms = *ch.choose(&[100u16, 300, 1000]);
    let max_connections = ch.range(2, 4) as usize;
    let mut conn = base_conn(timeout_ms);
    if auth_mode == 1 || auth_mode == 3 {
        let mut m = HashMap::new();
        m.insert("alice".to_string(), "secret".to_string());
        m.insert("bob".to_string(), "hunter2".to_string());
        conn.auth = Some(m);
    }
    if auth_mode == 2 || auth_mode == 3 {
        conn.set_auth_handler(|cid: String, u: String, p: String| async move { ext_verdict(&cid, &u, &p) });
    }
    rep.config = format!(
        "C19 listener=v{} auth_mode={auth_mode} connection_timeout_ms={timeout_ms} max_connections={max_connections}",
        if v5 { 5 } else { 4 }
    );
    tr!(rep, "cfg {}", rep.config.clone());
    let cfg = NetCfg {
        max_connections,
        conn4: conn.clone(),
        conn5: conn,
    };
    with_broker(NP::C19, ch, rep, cfg, move |sh, ls| async move {
        // the witness: an admitted client that sees every effect on probe/#
        let mut witness = Cli::new(accept(&sh, &ls, v5, "witness"), v5, "witness");
        let wlogin = match auth_mode {
            0 => None,
            1 => Some(("alice".to_string(), "secret".to_string())),
            _ => {
                // find credentials the external authenticator accepts
                let mut found = None;
                for i in 0..64 {
                    let (u, p) = ("alice".to_string(), format!("pw{i}"));
                    let p = if auth_mode == 3 && i == 0 { "secret".to_string() } else { p };
                    if ext_verdict("witness", &u, &p) {
                        found = Some((u, p));
                        break;
                    }
                }
                found
            }
        };
        let wspec = ConnectSpec {
            id: "witness".into(),
            clean: true,
            keep_alive: 60,
            login: wlogin,
            ..Default::default()
        };
        if !connect_ok(&mut witness, &wspec).await {
            // cannot even place the witness (e.g. no acceptable credentials): nothing to judge
            sh.probe("witness_not_admitted");
            return;
        }
        witness.send(&subscribe_bytes(v5, 1, "probe/#", 0, None)).await;
        if !matches!(witness.recv(Duration::from_secs(2)).await, Rx::SubAck(1)) {
            sh.viol("witness_subscribe_failed", "the admitted witness client got no SUBACK");
            return;
        }
        let mut live: Vec<(String, Cli)> = Vec::new();
        let attempts = 1 + sh.pick(6);
        for i in 0..attempts {
            if sh.done() || sh.dead.get() {
                break;
            }
            let first = match sh.pick(16) {
                0 => First::ConnectOtherVersion,
                1 => First::NonConnect,
                2 => First::Garbage,
                3 => First::Nothing,
                _ => First::Connect,
            };
            let ids = ["c1", "c2", "c3", "c1", "c2", "c4", "a+b", "a/b", "$x", "h#", "", ""];
            let id = ids[sh.pick(ids.len() as u32) as usize].to_string();
            let clean = sh.coin(2, 3);
            let keep_alive = if sh.coin(1, 14) { 0 } else { 30 };
            let login = match sh.pick(10) {
                0 => None,
                1 => Some(("alice".to_string(), "secret".to_string())),
                2 => Some(("alice".to_string(), "wrong".to_string())),
                3 => Some(("mallory".to_string(), "secret".to_string())),
                // near misses of a listed password: prefix, extension, empty, other case
                4 => Some(("alice".to_string(), "secre".to_string())),
                5 => Some(("alice".to_string(), "secret1".to_string())),
                6 => Some(("alice".to_string(), String::new())),
                7 => Some(("bob".to_string(), "Hunter2".to_string())),
                8 => Some(("bob".to_string(), "hunter2".to_string())),
                _ => Some(("bob".to_string(), format!("pw{}", sh.pick(4)))),
            };
            let spec = ConnectSpec {
                id: id.clone(),
                clean,
                keep_alive,
                login: login.clone(),
                ..Default::default()
            };
            // reference admission predicate
            let static_ok = |l: &Option<(String, String)>| match l {
                Some((u, p)) => (u == "alice" && p == "secret") || (u == "bob" && p == "hunter2"),
                None => false,
            };
            let ext_ok = |l: &Option<(String, String)>| match l {
                Some((u, p)) => ext_verdict(&id, u, p),
                None => false,
            };
            // Some(true/false): decided; None: the statement leaves it open
            // (both mechanisms configured and they disagree)
            let auth_ok: Option<bool> = match auth_mode {
                0 => Some(true),
                1 => Some(static_ok(&login)),
                2 => Some(ext_ok(&login)),
                _ => {
                    // both configured: the authentication callback decides (that is
                    // how the listener is documented by its own unit tests: a login
                    // the callback accepts is admitted although the table does not
                    // list it; a login the callback refuses is refused)
                    let _ = static_ok(&login);
                    Some(ext_ok(&login))
                }
            };
            let id_ok = !id.chars().any(|c| "+$#/".contains(c)) && (!id.is_empty() || clean);
            let takeover = live.iter().position(|(lid, _)| !id.is_empty() && *lid == id);
            let capacity_ok = takeover.is_some() || live.len() + 1 < max_connections;
            let admit: Option<bool> = if first != First::Connect || keep_alive == 0 || !id_ok {
                Some(false)
            } else {
                match auth_ok {
                    Some(false) => Some(false),
                    Some(true) => Some(capacity_ok),
                    None if !capacity_ok => Some(false),
                    None => None,
                }
            };
            let name = format!("attempt{i}");
            let mut cli = Cli::new(accept(&sh, &ls, v5, &name), v5, &name);
            sh.trace(format!(
                "{name}: first={first:?} id={id:?} clean={clean} keep_alive={keep_alive} login={login:?} -> admit expected {admit:?}"
            ));
            match first {
                First::Connect => {
                    cli.send(&connect_bytes(v5, &spec)).await;
                }
                First::ConnectOtherVersion => {
                    sh.probe("connect_of_other_protocol_version");
                    cli.send(&connect_bytes(!v5, &spec)).await;
                }
                First::NonConnect => {
                    sh.probe("first_packet_not_connect");
                    let b = match sh.pick(3) {
                        0 => pingreq_bytes(),
                        1 => publish_bytes(v5, "probe/x", b"sneak", 0, 0, false, None),
                        _ => subscribe_bytes(v5, 1, "probe/#", 0, None),
                    };
                    cli.send(&b).await;
                }
                First::Garbage => {
                    sh.probe("first_bytes_garbage");
                    let n = 1 + sh.pick(12);
                    let g: Vec<u8> = (0..n).map(|_| sh.pick(256) as u8).collect();
                    cli.send(&g).await;
                }
                First::Nothing => {
                    sh.probe("no_first_packet");
                }
            }
            // whatever the outcome, the client then behaves as if it were in:
            let payload = format!("att{i}");
            cli.send(&subscribe_bytes(v5, 2, "probe/#", 0, None)).await;
            cli.send(&publish_bytes(v5, &format!("probe/{i}"), payload.as_bytes(), 0, 0, false, None))
                .await;
            let wait = Duration::from_millis(timeout_ms as u64 + 500);
            let mut got_connack_ok = false;
            let mut closed = false;
            loop {
                match cli.recv(wait).await {
                    Rx::ConnAck { ok, .. } => {
                        if ok {
                            got_connack_ok = true;
                        }
                        if got_connack_ok {
                            break;
                        }
                    }
                    Rx::Closed => {
                        closed = true;
                        break;
                    }
                    Rx::Timeout => break,
                    _ => {}
                }
            }
            sleep_ms(50).await;
            // did its PUBLISH have an effect?
            let mut effect = false;
            loop {
                match witness.recv(Duration::from_millis(30)).await {
                    Rx::Publish { payload: p, .. } => {
                        if p == payload.as_bytes() {
                            effect = true;
                        }
                    }
                    Rx::Timeout => break,
                    Rx::Closed => {
                        sh.viol(
                            "witness_connection_closed",
                            format!("the witness connection was closed while {name} connected"),
                        );
                        return;
                    }
                    _ => {}
                }
            }
            sh.trace(format!("{name}: connack_ok={got_connack_ok} closed={closed} effect={effect}"));
            match admit {
                Some(false) => {
                    if got_connack_ok {
                        let why = if first != First::Connect {
                            "first_packet"
                        } else if keep_alive == 0 {
                            "zero_keep_alive"
                        } else if !id_ok {
                            "client_id"
                        } else if auth_ok == Some(false) {
                            "credentials"
                        } else {
                            "max_connections"
                        };
                        sh.viol(
                            format!("admitted_but_must_be_refused:{why}"),
                            format!("{name} ({first:?}, id {id:?}, clean {clean}, keep_alive {keep_alive}, login {login:?}, auth mode {auth_mode}) received a successful CONNACK"),
                        );
                        return;
                    }
                    if effect {
                        sh.viol(
                            "refused_connection_had_effect",
                            format!("{name} was not admitted but its PUBLISH reached a subscriber"),
                        );
                        return;
                    }
                    sh.probe("attempt_refused");
                }
                Some(true) => {
                    if !got_connack_ok {
                        sh.viol(
                            "refused_but_must_be_admitted",
                            format!("{name} (id {id:?}, clean {clean}, login {login:?}, auth mode {auth_mode}, live {} of {max_connections}) got no successful CONNACK (closed={closed})", live.len() + 1),
                        );
                        return;
                    }
                    sh.probe("attempt_admitted");
                }
                None => {
                    sh.probe("attempt_outcome_left_open");
                }
            }
            if got_connack_ok {
                if let Some(t) = takeover {
                    sh.probe("takeover");
                    let (_, mut old) = live.remove(t);
                    // the old connection must be gone
                    let mut old_closed = false;
                    for _ in 0..2000 {
                        match old.recv(Duration::from_millis(500)).await {
                            Rx::Closed => {
                                old_closed = true;
                                break;
                            }
                            Rx::Timeout => break,
                            _ => {}
                        }
                    }
                    if !old_closed {
                        sh.viol(
                            "two_live_connections_for_one_client_id",
                            format!("after {name} took over client id {id:?} the earlier connection is still open"),
                        );
                        return;
                    }
                }
                if sh.coin(2, 3) {
                    live.push((id.clone(), cli));
                } else {
                    // leave again (network close)
                    cli.close();
                    sleep_ms(100).await;
                }
            } else {
                cli.close();
                sleep_ms(20).await;
            }
            // invariants on the routing core
            let snap = sh.router.borrow().verif_snapshot();
            let mut ids: Vec<&String> = snap.connections.iter().map(|c| &c.client_id).collect();
            ids.sort();
            let n = ids.len();
            ids.dedup();
            if ids.len() != n {
                sh.viol(
                    "duplicate_client_id_in_router",
                    format!("two live connections share a client id: {:?}", snap.connections.iter().map(|c| &c.client_id).collect::<Vec<_>>()),
                );
                return;
            }
            if n > max_connections {
                sh.viol(
                    "max_connections_exceeded",
                    format!("{n} live connections, limit {max_connections}"),
                );
                return;
            }
            if admit == Some(false) && !id.is_empty() && snap.connections.iter().any(|c| c.client_id == id) && takeover.is_none() && !live.iter().any(|(l, _)| *l == id) {
                sh.viol(
                    "refused_connection_registered",
                    format!("{name} was not admitted but client id {id:?} is registered in the routing core"),
                );
                return;
            }
        }
        sh.rep.borrow_mut().nontrivial = attempts >= 2;
        drop(live);
        drop(witness);
    })
}

// ---------------------------------------------------------------------------
// C20: crossing protocol versions
// ---------------------------------------------------------------------------

fn gen_props(sh: &Shared) -> Option<PubProps> {
    let mask = sh.pick(128);
    if mask == 0 {
        return None;
    }
    let mut p = PubProps::default();
    if mask & 1 != 0 {
        p.payload_format_indicator = Some(1);
    }
    if mask & 2 != 0 {
        p.message_expiry_interval = Some(3600 + sh.pick(1000));
    }
    if mask & 4 != 0 {
        // multi-byte characters: byte length != character count (no new draw)
        p.response_topic = Some(if mask & 1 != 0 { "r\u{e9}ponse/\u{20ac}/\u{1f600}" } else { "reply/here" }.to_string());
    }
    if mask & 8 != 0 {
        // lengths that move the property block across the 127/128 boundary
        let n = if sh.coin(1, 2) { 4 } else { sh.pick(300) as usize };
        p.correlation_data = Some((0..n).map(|i| (i % 251) as u8).collect());
    }
    if mask & 16 != 0 {
        let n = if sh.coin(1, 2) { 2 } else { sh.pick(200) as usize };
        p.user_properties = vec![(if mask & 2 != 0 { "k\u{fc}" } else { "k" }.to_string(), if mask & 1 != 0 { "\u{20ac}".repeat(n) } else { "v".repeat(n) })];
    }
    if mask & 32 != 0 {
        p.content_type = Some(if mask & 4 != 0 { "text/plain; charset=\u{fc}tf" } else { "text/plain" }.to_string());
    }
    if mask & 64 != 0 {
        p.topic_alias = Some(1 + sh.pick(3) as u16);
    }
    Some(p)
}

fn run_c20(ch: &mut Choices, rep: &mut RunReport) -> Outcome {
    let pub_v5 = ch.coin(1, 2);
    let sub_v5 = ch.coin(1, 2);
    let sub_qos = ch.pick(3) as u8;
    // subscription identifiers at the variable-length-integer boundaries
    let sub_id = if sub_v5 && ch.coin(1, 3) {
        Some(*ch.choose(&[1usize, 2, 5, 127, 128, 129, 16383, 16384, 16385, 2097151, 2097152, 268435455]))
    } else {
        None
    };
    let sub_alias_max = if sub_v5 && ch.coin(1, 3) { Some(*ch.choose(&[1u16, 2, 10])) } else { None };
    let wildcard = ch.coin(1, 2);
    let n_msgs = 1 + ch.pick(8);
    rep.config = format!(
        "C20 publisher=v{} subscriber=v{} sub_qos={sub_qos} sub_id={sub_id:?} subscriber_topic_alias_max={sub_alias_max:?} wildcard_filter={wildcard} messages={n_msgs}",
        if pub_v5 { 5 } else { 4 },
        if sub_v5 { 5 } else { 4 }
    );
    tr!(rep, "cfg {}", rep.config.clone());
    let cfg = NetCfg {
        max_connections: 10,
        conn4: base_conn(500),
        conn5: base_conn(500),
    };
    with_broker(NP::C20, ch, rep, cfg, move |sh, ls| async move {
        let mut s = Cli::new(accept(&sh, &ls, sub_v5, "subscriber"), sub_v5, "subscriber");
        let sspec = ConnectSpec {
            id: "sub".into(),
            clean: true,
            keep_alive: 60,
            topic_alias_max: sub_alias_max,
            // (other CONNECT properties must not be mistaken for it; decided without
            // a further choice)
            receive_maximum: if sub_v5 && n_msgs % 2 == 0 { Some(20) } else { None },
            ..Default::default()
        };
        if !connect_ok(&mut s, &sspec).await {
            sh.viol("subscriber_not_connected", "subscriber got no CONNACK");
            return;
        }
        let filter = if wildcard { "t/#" } else { "t/a" };
        s.send(&subscribe_bytes(sub_v5, 1, filter, sub_qos, sub_id)).await;
        if !matches!(s.recv(Duration::from_secs(2)).await, Rx::SubAck(1)) {
            sh.viol("subscriber_no_suback", "subscriber got no SUBACK");
            return;
        }
        let mut p = Cli::new(accept(&sh, &ls, pub_v5, "publisher"), pub_v5, "publisher");
        let pspec = ConnectSpec {
            id: "pub".into(),
            clean: true,
            keep_alive: 60,
            ..Default::default()
        };
        if !connect_ok(&mut p, &pspec).await {
            sh.viol("publisher_not_connected", "publisher got no CONNACK");
            return;
        }
        // exercise the other notifications the router can emit towards each version
        p.send(&pingreq_bytes()).await;
        p.send(&subscribe_bytes(pub_v5, 9, "other/x", 1, None)).await;
        p.send(&unsubscribe_bytes(pub_v5, 10, "other/x")).await;
        let mut expected: Vec<(String, Vec<u8>, Option<PubProps>)> = Vec::new();
        let mut alias_topics: HashMap<u16, String> = HashMap::new();
        // one QoS 2 publish whose PUBREL is held back: (pkid, topic, payload, props, alias, index)
        let mut deferred: Option<(u16, String, Vec<u8>, Option<PubProps>, Option<u16>, u32)> = None;
        let mut rebound_while_deferred = false;
        // PUBRECs that arrived while another handshake was being completed
        let mut seen_rec: std::collections::HashSet<u16> = std::collections::HashSet::new();
        let mut seen_ping = false;
        let mut seen_unsuback = false;
        for i in 0..n_msgs {
            let topic = if wildcard && sh.coin(1, 2) { "t/b" } else { "t/a" };
            let mut payload = format!("m{i}").into_bytes();
            // sometimes a payload that puts the frame at a remaining-length boundary
            match sh.pick(12) {
                0 => payload.resize(100 + sh.pick(60) as usize, b'x'),
                1 => payload.resize(16360 + sh.pick(40) as usize, b'y'),
                _ => {}
            }
            let qos = sh.pick(3) as u8;
            let pkid = if qos > 0 { 100 + i as u16 } else { 0 };
            let mut props = if pub_v5 { gen_props(&sh) } else { None };
            // a publisher-side alias: first use establishes it, a later use of
            // the same alias must name the same topic (or we re-establish it)
            let mut wire_topic = topic.to_string();
            if let Some(pp) = props.as_mut() {
                if let Some(a) = pp.topic_alias {
                    if alias_topics.get(&a).map(|t| t == topic).unwrap_or(false) && sh.coin(1, 2) {
                        wire_topic = String::new();
                        sh.probe("publisher_used_alias_without_topic");
                    } else {
                        alias_topics.insert(a, topic.to_string());
                    }
                }
            }
            let props_alias = props.as_ref().and_then(|x| x.topic_alias);
            p.send(&publish_bytes(pub_v5, &wire_topic, &payload, qos, pkid, false, props.as_ref()))
                .await;
            sh.trace(format!("publisher -> {topic} {} qos{qos} props={props:?}", String::from_utf8_lossy(&payload)));
            // expected at the subscriber: the publisher's alias is not forwarded
            let exp_props = props.map(|mut x| {
                x.topic_alias = None;
                x
            });
            // a QoS 2 publish may be released later, after further publishes (the
            // message is forwarded when it is released, so that is its place in
            // the expected order)
            if qos == 2 && deferred.is_none() && sh.coin(1, 3) {
                let alias = props_alias;
                deferred = Some((pkid, topic.to_string(), payload, exp_props, alias, i));
                sh.probe("qos2_release_deferred");
                continue;
            }
            // releases go out in publish order (the statement of C06 says so too):
            // an earlier deferred QoS 2 publish is released before this one if this
            // one is QoS 2 itself, otherwise after it or later
            let mut to_release: Vec<u16> = Vec::new();
            let release_deferred = deferred.is_some() && (qos == 2 || sh.coin(1, 2));
            let mut take_deferred = |expected: &mut Vec<(String, Vec<u8>, Option<PubProps>)>, to_release: &mut Vec<u16>| {
                let (dpk, dt, dp, dprops, dalias, _di) = deferred.take().unwrap();
                // was its alias bound to another topic in the meantime?
                if let Some(a) = dalias {
                    if alias_topics.get(&a).map(|t| *t != dt).unwrap_or(false) {
                        rebound_while_deferred = true;
                        sh.probe("alias_rebound_while_qos2_release_deferred");
                    }
                }
                expected.push((dt, dp, dprops));
                to_release.push(dpk);
            };
            if qos == 2 {
                if release_deferred {
                    take_deferred(&mut expected, &mut to_release);
                }
                expected.push((topic.to_string(), payload, exp_props));
                to_release.push(pkid);
            } else {
                expected.push((topic.to_string(), payload, exp_props));
                if release_deferred {
                    take_deferred(&mut expected, &mut to_release);
                }
            }
            for pkid in to_release {
                // complete the handshake
                let mut released = false;
                if seen_rec.remove(&pkid) {
                    p.send(&ack_bytes(pub_v5, 2, pkid)).await;
                }
                for _ in 0..20 {
                    match p.recv(Duration::from_secs(1)).await {
                        Rx::PubRec(id) if id == pkid => {
                            p.send(&ack_bytes(pub_v5, 2, pkid)).await;
                        }
                        Rx::PubRec(id) => {
                            seen_rec.insert(id);
                        }
                        Rx::PubComp(id) if id == pkid => {
                            released = true;
                            break;
                        }
                        Rx::PingResp => seen_ping = true,
                        Rx::UnsubAck(10) => seen_unsuback = true,
                        Rx::Closed => break,
                        Rx::Timeout => break,
                        _ => {}
                    }
                }
                if !released {
                    sh.viol("publisher_qos2_handshake_incomplete", format!("QoS 2 publish {pkid} of the v{} publisher was not completed", if pub_v5 { 5 } else { 4 }));
                    return;
                }
            }
        }
        if let Some((dpk, dt, dp, dprops, dalias, _)) = deferred.take() {
            if let Some(a) = dalias {
                if alias_topics.get(&a).map(|t| *t != dt).unwrap_or(false) {
                    rebound_while_deferred = true;
                    sh.probe("alias_rebound_while_qos2_release_deferred");
                }
            }
            expected.push((dt, dp, dprops));
            let mut released = false;
            if seen_rec.remove(&dpk) {
                p.send(&ack_bytes(pub_v5, 2, dpk)).await;
            }
            for _ in 0..20 {
                match p.recv(Duration::from_secs(1)).await {
                    Rx::PubRec(id) if id == dpk => {
                        p.send(&ack_bytes(pub_v5, 2, dpk)).await;
                    }
                    Rx::PubComp(id) if id == dpk => {
                        released = true;
                        break;
                    }
                    Rx::PingResp => seen_ping = true,
                    Rx::UnsubAck(10) => seen_unsuback = true,
                    Rx::Closed | Rx::Timeout => break,
                    _ => {}
                }
            }
            if !released {
                sh.viol("publisher_qos2_handshake_incomplete", format!("deferred QoS 2 publish {dpk} of the v{} publisher was not completed", if pub_v5 { 5 } else { 4 }));
                return;
            }
        }
        // collect at the subscriber
        let mut got: Vec<(String, Vec<u8>, Option<PubProps>, u8)> = Vec::new();
        let want = expected.len();
        for _ in 0..(want * 4 + 20) {
            if got.len() >= want {
                break;
            }
            match s.recv(Duration::from_secs(2)).await {
                Rx::Publish { topic, payload, qos, pkid, props, .. } => {
                    match qos {
                        1 => {
                            s.send(&ack_bytes(sub_v5, 0, pkid)).await;
                        }
                        2 => {
                            s.send(&ack_bytes(sub_v5, 1, pkid)).await;
                        }
                        _ => {}
                    }
                    got.push((topic, payload, props, qos));
                }
                Rx::PubRel(id) => {
                    s.send(&ack_bytes(sub_v5, 3, id)).await;
                }
                Rx::Bad(e) => {
                    sh.viol(
                        "subscriber_cannot_decode_broker_bytes",
                        format!("the v{} subscriber could not decode what the broker wrote: {e}", if sub_v5 { 5 } else { 4 }),
                    );
                    return;
                }
                Rx::Closed => {
                    sh.viol(
                        "subscriber_connection_closed",
                        format!("the v{} subscriber's connection was closed while messages published through v{} were forwarded ({} of {want} received)", if sub_v5 { 5 } else { 4 }, if pub_v5 { 5 } else { 4 }, got.len()),
                    );
                    return;
                }
                Rx::Timeout => break,
                _ => {}
            }
        }
        if got.len() < want {
            sh.viol(
                "message_not_delivered_across_versions",
                format!("{} of {want} messages published through v{} reached the v{} subscriber", got.len(), if pub_v5 { 5 } else { 4 }, if sub_v5 { 5 } else { 4 }),
            );
            return;
        }
        for (i, ((et, ep, eprops), (gt, gp, gprops, gq))) in expected.iter().zip(got.iter()).enumerate() {
            if et != gt || ep != gp {
                let class = if et != gt && rebound_while_deferred {
                    "wrong_topic_or_payload:alias_rebound_before_qos2_release"
                } else if et != gt && sub_alias_max.is_some() {
                    "wrong_topic_or_payload:subscriber_uses_topic_aliases"
                } else {
                    "wrong_topic_or_payload"
                };
                sh.viol(
                    class,
                    format!("message {i}: published {et}/{} , subscriber (v{}) decoded {gt}/{}", String::from_utf8_lossy(ep), if sub_v5 { 5 } else { 4 }, String::from_utf8_lossy(gp)),
                );
                return;
            }
            if *gq != sub_qos {
                sh.viol("wrong_qos", format!("message {i} delivered at QoS {gq}, subscription granted {sub_qos}"));
                return;
            }
            if sub_v5 {
                // preserved towards MQTT 5 (minus the publisher's alias, plus the
                // subscriber's own alias / subscription identifier)
                let mut g = gprops.clone().unwrap_or_default();
                if let Some(a) = g.topic_alias {
                    if sub_alias_max.map_or(true, |m| a == 0 || a > m) {
                        sh.viol(
                            "topic_alias_beyond_subscriber_limit",
                            format!("message {i} reached the v5 subscriber with topic alias {a}; the subscriber announced topic alias maximum {sub_alias_max:?}"),
                        );
                        return;
                    }
                }
                g.topic_alias = None;
                let ids = std::mem::take(&mut g.subscription_identifiers);
                if let Some(id) = sub_id {
                    if ids != vec![id] {
                        sh.viol("subscription_identifier", format!("message {i}: subscription identifiers {ids:?}, subscribed with {id}"));
                        return;
                    }
                } else if !ids.is_empty() {
                    sh.viol("subscription_identifier", format!("message {i}: unexpected subscription identifiers {ids:?}"));
                    return;
                }
                let mut e = eprops.clone().unwrap_or_default();
                // the broker may have decremented the expiry by whole seconds spent
                if let (Some(a), Some(b)) = (e.message_expiry_interval, g.message_expiry_interval) {
                    if b <= a && a - b <= 5 {
                        e.message_expiry_interval = Some(b);
                    }
                }
                if format!("{e:?}") != format!("{g:?}") {
                    sh.viol(
                        "properties_not_preserved_towards_v5",
                        format!("message {i}: published with {e:?}, v5 subscriber decoded {g:?}"),
                    );
                    return;
                }
            } else if gprops.as_ref().map(|x| !x.is_empty()).unwrap_or(false) {
                sh.viol("properties_towards_v4", format!("message {i}: a 3.1.1 subscriber decoded properties"));
                return;
            }
        }
        sh.probe(match (pub_v5, sub_v5) {
            (false, false) => "pair_v4_to_v4",
            (false, true) => "pair_v4_to_v5",
            (true, false) => "pair_v5_to_v4",
            (true, true) => "pair_v5_to_v5",
        });
        // the publisher's own replies (PINGRESP, SUBACK, UNSUBACK, PUBACKs) must decode
        for _ in 0..40 {
            match p.recv(Duration::from_millis(300)).await {
                Rx::PingResp => seen_ping = true,
                Rx::UnsubAck(10) => seen_unsuback = true,
                Rx::Bad(e) => {
                    sh.viol("publisher_cannot_decode_broker_bytes", format!("the v{} publisher could not decode a reply: {e}", if pub_v5 { 5 } else { 4 }));
                    return;
                }
                Rx::Closed => {
                    sh.viol("publisher_connection_closed", format!("the v{} publisher's connection was closed", if pub_v5 { 5 } else { 4 }));
                    return;
                }
                Rx::Timeout => break,
                _ => {}
            }
        }
        if !seen_ping || !seen_unsuback {
            sh.viol(
                "reply_not_encoded",
                format!("publisher (v{}) did not receive PINGRESP ({seen_ping}) / UNSUBACK ({seen_unsuback})", if pub_v5 { 5 } else { 4 }),
            );
            return;
        }
        // a subscriber that accepts broker-assigned aliases changes its subscriptions:
        // the alias numbers the broker frees and hands out again must keep naming
        // the right topic (the filter is a plain topic here, so the alias is freed)
        if sub_alias_max.is_some() && !wildcard && sh.coin(1, 2) {
            sh.probe("subscriber_changes_subscriptions_with_aliases");
            let steps: [(&str, &str, &str); 2] = [("t/a", "t/b", "after-1"), ("t/b", "t/a", "after-2")];
            let mut pk = 40u16;
            for (leave, join, tag) in steps {
                pk += 2;
                s.send(&unsubscribe_bytes(sub_v5, pk, leave)).await;
                s.send(&subscribe_bytes(sub_v5, pk + 1, join, 0, None)).await;
                let (mut una, mut sua) = (false, false);
                for _ in 0..8 {
                    match s.recv(Duration::from_millis(500)).await {
                        Rx::UnsubAck(id) if id == pk => una = true,
                        Rx::SubAck(id) if id == pk + 1 => sua = true,
                        Rx::Closed | Rx::Timeout => break,
                        _ => {}
                    }
                    if una && sua {
                        break;
                    }
                }
                if !(una && sua) {
                    sh.probe("resubscribe_not_acknowledged");
                    break;
                }
                let payload = format!("{tag}").into_bytes();
                p.send(&publish_bytes(pub_v5, join, &payload, 0, 0, false, None)).await;
                let mut ok = false;
                for _ in 0..8 {
                    match s.recv(Duration::from_secs(1)).await {
                        Rx::Publish { topic, payload: got, .. } => {
                            if got == payload {
                                if topic != join {
                                    sh.viol(
                                        "wrong_topic_or_payload:alias_reused_after_unsubscribe",
                                        format!("after the subscriber left {leave} and subscribed {join}, the message published on {join} was decoded as {topic}"),
                                    );
                                    return;
                                }
                                ok = true;
                                break;
                            }
                        }
                        Rx::Bad(e) => {
                            sh.viol("subscriber_cannot_decode_broker_bytes", format!("after a change of subscriptions: {e}"));
                            return;
                        }
                        Rx::Closed | Rx::Timeout => break,
                        _ => {}
                    }
                }
                if !ok {
                    sh.viol(
                        "message_not_delivered_across_versions:after_resubscribe",
                        format!("the message published on {join} after the subscriber subscribed to it was not delivered"),
                    );
                    return;
                }
            }
        }
        // a router-initiated close with a reason (MQTT 5 only): the DISCONNECT
        // notification must be encodable and decodable too
        if pub_v5 && sh.coin(1, 2) {
            let bad = PubProps {
                topic_alias: Some(0),
                ..Default::default()
            };
            p.send(&publish_bytes(true, "t/a", b"bad-alias", 0, 0, false, Some(&bad))).await;
            sh.probe("router_initiated_disconnect_with_reason");
            let mut got_disconnect = false;
            for _ in 0..10 {
                match p.recv(Duration::from_millis(500)).await {
                    Rx::Disconnect => got_disconnect = true,
                    Rx::Bad(e) => {
                        sh.viol(
                            "disconnect_notification_not_decodable",
                            format!("the v5 client could not decode the DISCONNECT the broker wrote after a topic-alias violation: {e}"),
                        );
                        return;
                    }
                    Rx::Closed | Rx::Timeout => break,
                    _ => {}
                }
            }
            if !got_disconnect {
                sh.probe("router_disconnect_not_seen");
            }
        }
        // no zombie: every finished per-connection task's client is gone from the router
        drop(p);
        drop(s);
        sleep_ms(200).await;
        let snap = sh.router.borrow().verif_snapshot();
        if !snap.connections.is_empty() {
            sh.viol(
                "zombie_connection",
                format!("both clients closed their connections but the router still registers {:?}", snap.connections.iter().map(|c| &c.client_id).collect::<Vec<_>>()),
            );
            return;
        }
        sh.rep.borrow_mut().nontrivial = true;
    })
}

// ---------------------------------------------------------------------------
// C16: last will, full stack, every cut offset
// ---------------------------------------------------------------------------

#[derive(Clone)]
struct WillCase {
    wv5: bool,
    vv5: bool,
    keep_alive: u16,
    will: Option<(String, Vec<u8>, u8, bool)>,
    /// (bytes, is the DISCONNECT frame)
    frames: Vec<(Vec<u8>, bool)>,
    /// Before the session: the same client id tries to connect WITH a will
    /// while the broker is full and is refused; that will must never appear.
    ghost: bool,
    /// Nobody is subscribed to the will topic while the session runs; only a
    /// subscriber that arrives afterwards can see the will (retained or not).
    late_watcher: bool,
    /// After the session: the same client id connects again WITHOUT a will
    /// and that connection is cut; no will may appear.
    afterlife: bool,
}

fn gen_will_case(ch: &mut Choices) -> WillCase {
    let wv5 = ch.coin(1, 2);
    let vv5 = ch.coin(1, 2);
    let keep_alive = *ch.choose(&[1u16, 2, 5]);
    let will = if ch.coin(4, 5) {
        Some((
            "w/t".to_string(),
            format!("will{}", ch.pick(1000)).into_bytes(),
            ch.pick(3) as u8,
            ch.coin(1, 3),
        ))
    } else {
        None
    };
    // (an empty client id - the broker assigns one - is decided by the will's
    // payload number, not by a further choice)
    let anon = will.as_ref().map_or(false, |w| w.1.last().map_or(false, |b| *b == b'7'));
    let spec = ConnectSpec {
        id: if anon { String::new() } else { "willer".into() },
        clean: true,
        keep_alive,
        will: will.clone(),
        ..Default::default()
    };
    let mut frames = vec![(connect_bytes(wv5, &spec), false)];
    let n = ch.pick(4);
    for i in 0..n {
        let f = match ch.pick(3) {
            0 => pingreq_bytes(),
            1 => publish_bytes(wv5, "x/y", format!("p{i}").as_bytes(), ch.pick(2) as u8, 10 + i as u16, false, None),
            _ => subscribe_bytes(wv5, 20 + i as u16, "x/#", 0, None),
        };
        frames.push((f, false));
    }
    match ch.pick(3) {
        // MQTT 5 knows three encodings of a normal DISCONNECT: no body, reason code
        // only (property length then counts as 0), reason code + empty properties
        0 if wv5 => frames.push((
            match ch.pick(5) {
                0 => disconnect_bytes(),
                1 => vec![0xe0, 0x01, 0x00],
                2 => vec![0xe0, 0x02, 0x00, 0x00],
                3 => {
                    // reason code 0 + one user property whose value is longer than its key
                    let mut b = vec![0xe0, 22, 0x00, 20, 0x26, 0x00, 0x01, b'k', 0x00, 14];
                    b.extend_from_slice(b"a longer value");
                    b
                }
                _ => {
                    // reason code 0 + reason string
                    vec![0xe0, 8, 0x00, 6, 0x1f, 0x00, 0x03, b'b', b'y', b'e']
                }
            },
            true,
        )),
        0 => frames.push((disconnect_bytes(), true)),
        1 => frames.push((ack_bytes(wv5, 0, 65535), false)), // protocol error: the router closes
        _ => {}
    }
    let ghost = ch.coin(1, 4);
    let late_watcher = ch.coin(1, 4);
    let afterlife = !late_watcher && ch.coin(1, 3) && !anon;
    WillCase {
        wv5,
        vv5,
        keep_alive,
        will,
        frames,
        ghost,
        late_watcher,
        afterlife,
    }
}

/// One crash point: deliver the first `k` bytes of the session, then either
/// drop the connection (way 0) or go silent until the broker's keep-alive
/// closes it (way 1).
fn run_will_point(case: &WillCase, k: usize, way: u8, ch: &mut Choices, rep: &mut RunReport) -> Outcome {
    let cfg = NetCfg {
        max_connections: if case.ghost { 2 } else { 10 },
        conn4: base_conn(500),
        conn5: base_conn(500),
    };
    let case = case.clone();
    with_broker(NP::C16, ch, rep, cfg, move |sh, ls| async move {
        let mut v = Cli::new(accept(&sh, &ls, case.vv5, "watcher"), case.vv5, "watcher");
        let vspec = ConnectSpec {
            id: "watcher".into(),
            clean: true,
            keep_alive: 600,
            ..Default::default()
        };
        if !connect_ok(&mut v, &vspec).await {
            sh.viol("watcher_not_connected", "watcher got no CONNACK");
            return;
        }
        // (with `late_watcher` no filter that matches the will topic exists in the
        // broker until after the will has fired)
        let wfilter = if case.late_watcher { "elsewhere/#" } else { "w/#" };
        v.send(&subscribe_bytes(case.vv5, 1, wfilter, 1, None)).await;
        if !matches!(v.recv(Duration::from_secs(2)).await, Rx::SubAck(1)) {
            sh.viol("watcher_no_suback", "watcher got no SUBACK");
            return;
        }
        if case.late_watcher {
            sh.probe("no_subscriber_while_the_will_fires");
        }
        if case.ghost {
            // fill the broker, let "willer" be refused with a will on board, make room again
            let mut filler = Cli::new(accept(&sh, &ls, case.wv5, "filler"), case.wv5, "filler");
            let fspec = ConnectSpec {
                id: "filler".into(),
                clean: true,
                keep_alive: 600,
                ..Default::default()
            };
            if !connect_ok(&mut filler, &fspec).await {
                sh.viol("filler_not_connected", "filler got no CONNACK");
                return;
            }
            let mut ghost = Cli::new(accept(&sh, &ls, case.wv5, "ghost"), case.wv5, "ghost");
            let gspec = ConnectSpec {
                id: "willer".into(),
                clean: true,
                keep_alive: 60,
                will: Some(("w/ghost".to_string(), b"ghost".to_vec(), 0, false)),
                ..Default::default()
            };
            ghost.send(&connect_bytes(case.wv5, &gspec)).await;
            match ghost.recv(Duration::from_secs(1)).await {
                Rx::ConnAck { ok: true, .. } => {
                    // admitted although the broker is full: C19's business, not judged here
                    sh.probe("ghost_unexpectedly_admitted");
                    return;
                }
                _ => sh.probe("ghost_connect_refused"),
            }
            drop(ghost);
            filler.send(&disconnect_bytes()).await;
            sleep_ms(100).await;
            drop(filler);
            sleep_ms(100).await;
        }
        let stream: Vec<u8> = case.frames.iter().flat_map(|(b, _)| b.iter().copied()).collect();
        let connect_len = case.frames[0].0.len();
        let mut off = 0;
        let mut disconnect_end: Option<usize> = None;
        let mut bad_ack_end: Option<usize> = None;
        for (i, (b, is_disc)) in case.frames.iter().enumerate() {
            off += b.len();
            if *is_disc {
                disconnect_end = Some(off);
            } else if i == case.frames.len() - 1 && i > 0 && b.len() == 4 && (b[0] >> 4) == 4 {
                bad_ack_end = Some(off);
            }
        }
        let _ = bad_ack_end;
        let k = k.min(stream.len());
        let mut w = Cli::new(accept(&sh, &ls, case.wv5, "willer"), case.wv5, "willer");
        // deliver the prefix in seeded chunks with seeded virtual delays
        let mut sent = 0;
        while sent < k {
            let n = (1 + sh.pick(40) as usize).min(k - sent);
            if !w.send(&stream[sent..sent + n]).await {
                break;
            }
            sent += n;
            if sh.coin(1, 3) {
                sleep_ms(sh.pick(20) as u64).await;
            }
        }
        sleep_ms(20).await;
        let admitted = k >= connect_len;
        let disconnected = disconnect_end.map(|e| k >= e).unwrap_or(false);
        let expected = admitted && !disconnected && case.will.is_some();
        sh.trace(format!(
            "willer v{}: {k} of {} bytes delivered (connect {connect_len}, disconnect ends at {disconnect_end:?}), way {way}; will expected: {expected}",
            if case.wv5 { 5 } else { 4 },
            stream.len()
        ));
        if k > connect_len && k < stream.len() {
            sh.probe("cut_inside_session");
        }
        if way == 0 {
            sh.fault("connection_cut");
            w.close();
        } else {
            sh.fault("client_goes_silent");
            // keep the socket open and say nothing: the broker must close it
            // after 1.5 x keep-alive (or connection_timeout before CONNECT)
        }
        let wait_ms = if way == 0 { 1500 } else { case.keep_alive as u64 * 1500 + 1500 };
        let mut wills = 0;
        let mut wrong: Option<String> = None;
        let deadline = tokio::time::Instant::now() + Duration::from_millis(wait_ms);
        loop {
            let now = tokio::time::Instant::now();
            if now >= deadline {
                break;
            }
            match v.recv(deadline - now).await {
                Rx::Publish { topic, payload, qos, pkid, retain, .. } => {
                    if qos == 1 {
                        v.send(&ack_bytes(case.vv5, 0, pkid)).await;
                    }
                    if topic == "w/ghost" {
                        sh.viol(
                            "will_of_refused_connection_published",
                            "the will of a CONNECT that the broker refused (no room) was published later",
                        );
                        return;
                    }
                    if topic.starts_with("w/") {
                        wills += 1;
                        if let Some((wt, wp, _, _)) = &case.will {
                            if topic != *wt || payload != *wp {
                                wrong = Some(format!("will arrived as {topic}/{}", String::from_utf8_lossy(&payload)));
                            }
                            if retain {
                                wrong = Some("the live copy of the will is flagged retained".to_string());
                            }
                        }
                    }
                }
                Rx::Closed => {
                    sh.viol("watcher_connection_closed", "the watcher's connection was closed");
                    return;
                }
                Rx::Timeout => break,
                _ => {}
            }
        }
        if way == 1 {
            sh.probe("keepalive_expiry_waited");
        }
        let want = if expected && !case.late_watcher { 1 } else { 0 };
        if wills != want {
            let class = if wills > want {
                if wills > 1 {
                    "will_published_twice"
                } else if disconnected {
                    "will_published_after_disconnect"
                } else if case.will.is_none() {
                    "will_without_registration"
                } else {
                    "will_published_unexpectedly"
                }
            } else if way == 1 {
                "will_not_published:keep_alive_expiry"
            } else {
                "will_not_published"
            };
            sh.viol(
                class,
                format!("{wills} will message(s) reached the subscriber, expected {want} (session of {} bytes cut after {k}, way {way}, DISCONNECT delivered: {disconnected})", stream.len()),
            );
            return;
        }
        if let Some(m) = wrong {
            sh.viol("will_content", m);
            return;
        }
        if expected {
            sh.probe("will_fired");
            // retain as registered: a new subscriber gets it as retained iff retain=1
            let retain = case.will.as_ref().map(|w| w.3).unwrap_or(false);
            let mut late = Cli::new(accept(&sh, &ls, case.vv5, "late"), case.vv5, "late");
            let lspec = ConnectSpec {
                id: "late".into(),
                clean: true,
                keep_alive: 600,
                ..Default::default()
            };
            if connect_ok(&mut late, &lspec).await {
                late.send(&subscribe_bytes(case.vv5, 1, "w/#", 0, None)).await;
                let mut got_retained = false;
                for _ in 0..4 {
                    match late.recv(Duration::from_millis(300)).await {
                        Rx::Publish { retain: r, topic, .. } if topic.starts_with("w/") => {
                            got_retained = r;
                            break;
                        }
                        Rx::Timeout | Rx::Closed => break,
                        _ => {}
                    }
                }
                if got_retained != retain {
                    sh.viol(
                        "will_retain_flag",
                        format!("will registered with retain={retain}; a later subscriber received a retained copy: {got_retained}"),
                    );
                    return;
                }
            }
        } else {
            sh.probe("will_not_expected");
        }
        if case.afterlife {
            // the same client id lives a second time, without a will, and dies abruptly:
            // whatever the first life registered is over (fired or discarded)
            sh.probe("second_life_without_will");
            let mut w2 = Cli::new(accept(&sh, &ls, case.wv5, "willer2"), case.wv5, "willer2");
            let spec2 = ConnectSpec {
                id: "willer".into(),
                clean: true,
                keep_alive: 60,
                will: None,
                ..Default::default()
            };
            if connect_ok(&mut w2, &spec2).await {
                if sh.coin(1, 2) {
                    w2.send(&pingreq_bytes()).await;
                    sleep_ms(20).await;
                }
                sh.fault("connection_cut");
                w2.close();
                let deadline = tokio::time::Instant::now() + Duration::from_millis(1500);
                loop {
                    let now = tokio::time::Instant::now();
                    if now >= deadline {
                        break;
                    }
                    match v.recv(deadline - now).await {
                        Rx::Publish { topic, payload, .. } if topic.starts_with("w/") => {
                            sh.viol(
                                "will_of_earlier_connection_published_again",
                                format!("client id \"willer\" connected again without a will and was cut; the subscriber received {topic}/{}", String::from_utf8_lossy(&payload)),
                            );
                            return;
                        }
                        Rx::Closed => {
                            sh.viol("watcher_connection_closed", "the watcher's connection was closed");
                            return;
                        }
                        Rx::Timeout => break,
                        _ => {}
                    }
                }
            } else {
                sh.probe("second_life_not_admitted");
            }
        }
        sh.rep.borrow_mut().nontrivial = true;
    })
}

fn run_c16(ch: &mut Choices, rep: &mut RunReport) -> Outcome {
    let prefix = ch.log.clone();
    let mode = ch.pick_forced(2, 0);
    if mode == 1 {
        let k = ch.pick(4096) as usize;
        let way = ch.pick(2) as u8;
        let case = gen_will_case(ch);
        rep.config = format!("C16 single crash point k={k} way={way} frames={}", case.frames.len());
        return run_will_point(&case, k, way, ch, rep);
    }
    let mut base = ch.clone();
    base.log.clear();
    let case = gen_will_case(&mut base.clone());
    let total: usize = case.frames.iter().map(|(b, _)| b.len()).sum();
    rep.config = format!(
        "C16 will={:?} willer=v{} watcher=v{} keep_alive={} session bytes={total} frames={}",
        case.will.as_ref().map(|w| (w.2, w.3)),
        if case.wv5 { 5 } else { 4 },
        if case.vv5 { 5 } else { 4 },
        case.keep_alive,
        case.frames.len()
    );
    let mut first = true;
    let mut any = false;
    for k in 0..=total {
        // way 1 (silence until keep-alive expiry) at frame boundaries and a few seeded offsets
        let mut boundary = false;
        let mut off = 0;
        for (b, _) in &case.frames {
            off += b.len();
            if off == k {
                boundary = true;
            }
        }
        for way in 0..2u8 {
            if way == 1 && !boundary && k % 7 != 3 {
                continue;
            }
            let mut sub = base.clone();
            let case2 = gen_will_case(&mut sub);
            let mut subrep = RunReport::new(first && rep.lines.is_some());
            crate::core::heartbeat();
            let out = run_will_point(&case2, k, way, &mut sub, &mut subrep);
            crate::core::fnv(&mut rep.hash, &subrep.hash.to_le_bytes());
            rep.steps += subrep.steps;
            rep.sim_time_ms += subrep.sim_time_ms;
            rep.crash_points += 1;
            any |= subrep.nontrivial;
            for (key, v) in subrep.faults.iter() {
                *rep.faults.entry(key).or_insert(0) += v;
            }
            for (key, v) in subrep.probes.iter() {
                *rep.probes.entry(key).or_insert(0) += v;
            }
            if first {
                if let (Some(dst), Some(src)) = (rep.lines.as_mut(), subrep.lines.take()) {
                    dst.push(format!("== crash point k={k} way={way} (first of {} offsets)", total + 1));
                    dst.extend(src);
                }
                first = false;
            }
            match out {
                Outcome::Ok => {}
                Outcome::Foreign(f) => {
                    let mut log = prefix.clone();
                    log.extend([1u32, k as u32, way as u32]);
                    log.extend(sub.log.iter().copied());
                    ch.log = log;
                    return Outcome::Foreign(f);
                }
                Outcome::Violation(v) => {
                    let mut log = prefix.clone();
                    log.extend([1u32, k as u32, way as u32]);
                    log.extend(sub.log.iter().copied());
                    ch.log = log;
                    return Outcome::Violation(v);
                }
            }
        }
    }
    rep.nontrivial = any;
    Outcome::Ok
}

pub fn run(prop: NP, _tier: Tier, ch: &mut Choices, rep: &mut RunReport) -> Outcome {
    match prop {
        NP::C19 => run_c19(ch, rep),
        NP::C20 => run_c20(ch, rep),
        NP::C16 => run_c16(ch, rep),
    }
}
