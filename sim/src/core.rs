//! Run reports, violations, the batch runner, known findings.

use crate::choices::{mix, Choices};
use std::cell::{Cell, RefCell};
use std::collections::{BTreeMap, HashSet};
use std::panic::{catch_unwind, AssertUnwindSafe};
use std::sync::atomic::{AtomicBool, AtomicU64, Ordering};
use std::sync::Mutex;
use std::time::{Duration, Instant};

pub const HARNESS_VERSION: u32 = 1;

#[derive(Debug, Clone, Copy, PartialEq, Eq)]
pub enum Tier {
    Quick,
    Thorough,
}

impl Tier {
    pub fn name(self) -> &'static str {
        match self {
            Tier::Quick => "quick",
            Tier::Thorough => "thorough",
        }
    }
}

#[derive(Debug, Clone)]
pub struct Violation {
    pub property: &'static str,
    /// Stable machine-readable signature (oracle rule + triggering feature,
    /// or panic location).
    pub class: String,
    pub message: String,
}

pub enum Outcome {
    Ok,
    Violation(Violation),
    /// The run died of something that belongs to another property (typically
    /// a panic of the code under test in a check that is not about panics).
    Foreign(String),
}

pub fn fnv(h: &mut u64, bytes: &[u8]) {
    for b in bytes {
        *h ^= *b as u64;
        *h = h.wrapping_mul(0x0000_0100_0000_01B3);
    }
}

pub struct RunReport {
    pub hash: u64,
    pub steps: u32,
    pub sim_time_ms: u64,
    pub faults: BTreeMap<&'static str, u64>,
    pub probes: BTreeMap<&'static str, u64>,
    pub states: Vec<u64>,
    pub nontrivial: bool,
    pub crash_points: u64,
    pub lines: Option<Vec<String>>,
    pub config: String,
}

impl RunReport {
    pub fn new(record: bool) -> RunReport {
        RunReport {
            hash: 0xcbf2_9ce4_8422_2325,
            steps: 0,
            sim_time_ms: 0,
            faults: BTreeMap::new(),
            probes: BTreeMap::new(),
            states: Vec::new(),
            nontrivial: false,
            crash_points: 0,
            lines: if record { Some(Vec::new()) } else { None },
            config: String::new(),
        }
    }

    /// Appends one trace line: always hashed, stored only when recording.
    pub fn ev(&mut self, line: std::fmt::Arguments<'_>) {
        use std::fmt::Write;
        LINE.with(|l| {
            let mut l = l.borrow_mut();
            l.clear();
            let _ = l.write_fmt(line);
            fnv(&mut self.hash, l.as_bytes());
            fnv(&mut self.hash, b"\n");
            if let Some(lines) = &mut self.lines {
                if lines.len() < 20_000 {
                    lines.push(l.clone());
                }
            }
        });
        self.steps += 1;
    }

    pub fn fault(&mut self, kind: &'static str) {
        *self.faults.entry(kind).or_insert(0) += 1;
    }

    pub fn probe(&mut self, name: &'static str) {
        *self.probes.entry(name).or_insert(0) += 1;
    }

    pub fn state(&mut self, fp: u64) {
        self.states.push(fp);
    }
}

thread_local! {
    static LINE: RefCell<String> = RefCell::new(String::with_capacity(256));
    static QUIET: Cell<bool> = const { Cell::new(false) };
    static LAST_PANIC: RefCell<Option<(String, String)>> = const { RefCell::new(None) };
}

#[macro_export]
macro_rules! tr {
    ($rep:expr, $($arg:tt)*) => {
        $rep.ev(format_args!($($arg)*))
    };
}

/// Installs a process-wide panic hook that records location and message in a
/// thread-local and stays silent on simulator threads.
pub fn install_panic_hook() {
    let default = std::panic::take_hook();
    std::panic::set_hook(Box::new(move |info| {
        let loc = info
            .location()
            .map(|l| format!("{}:{}", l.file(), l.line()))
            .unwrap_or_else(|| "?".into());
        let msg = if let Some(s) = info.payload().downcast_ref::<&str>() {
            s.to_string()
        } else if let Some(s) = info.payload().downcast_ref::<String>() {
            s.clone()
        } else {
            "<non-string panic>".into()
        };
        LAST_PANIC.with(|p| *p.borrow_mut() = Some((loc, msg)));
        if !QUIET.with(|q| q.get()) {
            default(info);
        }
    }));
}

pub fn set_quiet(q: bool) {
    QUIET.with(|c| c.set(q));
}

pub fn take_last_panic() -> Option<(String, String)> {
    LAST_PANIC.with(|p| p.borrow_mut().take())
}

/// Shortens an absolute source path to `crate/src/...:line`.
pub fn short_loc(loc: &str) -> String {
    if let Some(i) = loc.find("/repo/") {
        return loc[i + 6..].to_string();
    }
    if let Some(i) = loc.find("/verif/sim/") {
        return format!("HARNESS:{}", &loc[i + 11..]);
    }
    if let Some(i) = loc.rfind("/src/") {
        // registry crates: keep crate dir + file
        let head = &loc[..i];
        let krate = head.rsplit('/').next().unwrap_or("");
        return format!("{}{}", krate, &loc[i..]);
    }
    loc.to_string()
}

/// Runs `f`, catching a panic. Returns `Err((location, message))`.
pub fn guarded<T>(f: impl FnOnce() -> T) -> Result<T, (String, String)> {
    take_last_panic();
    match catch_unwind(AssertUnwindSafe(f)) {
        Ok(v) => Ok(v),
        Err(_) => {
            let (loc, msg) = take_last_panic().unwrap_or(("?".into(), "?".into()));
            Err((short_loc(&loc), msg))
        }
    }
}

// ---------------------------------------------------------------------------
// Known findings
// ---------------------------------------------------------------------------

#[derive(Debug, Clone)]
pub struct KnownFinding {
    pub property: String,
    pub sig: String,
    pub text: String,
}

pub fn load_known(path: &str) -> Vec<KnownFinding> {
    let Ok(s) = std::fs::read_to_string(path) else {
        return Vec::new();
    };
    let mut out = Vec::new();
    for line in s.lines() {
        let line = line.trim();
        let Some(rest) = line.strip_prefix("open:") else {
            continue;
        };
        let rest = rest.trim();
        let mut property = String::new();
        let mut sig = String::new();
        let mut text = Vec::new();
        for tok in rest.split_whitespace() {
            if let Some(p) = tok.strip_prefix("property=") {
                if property.is_empty() {
                    property = p.to_string();
                    continue;
                }
            }
            if let Some(s) = tok.strip_prefix("sig=") {
                if sig.is_empty() {
                    sig = s.to_string();
                    continue;
                }
            }
            text.push(tok);
        }
        if !property.is_empty() && !sig.is_empty() {
            out.push(KnownFinding {
                property,
                sig,
                text: text.join(" "),
            });
        }
    }
    out
}

// ---------------------------------------------------------------------------
// Batch
// ---------------------------------------------------------------------------

pub type RunFn = dyn Fn(&mut Choices, &mut RunReport) -> Outcome + Sync;

pub struct BatchCfg<'a> {
    pub property: &'static str,
    pub seed: u64,
    pub runs: u64,
    pub workers: usize,
    pub wall_cap: Duration,
    pub known: &'a [KnownFinding],
    pub samples: usize,
    /// Called (from a monitor thread) when one run has not returned for
    /// `hang_after`: the code under test blocks or loops for ever. The
    /// callback reports and ends the process; it does not return.
    pub on_hang: Option<&'a (dyn Fn(u64, u64) + Sync)>,
    pub hang_after: Duration,
}

#[derive(Default)]
pub struct Agg {
    pub runs: u64,
    pub nontrivial_hashes: HashSet<u64>,
    pub all_hashes: HashSet<u64>,
    pub states: HashSet<u64>,
    pub steps: u64,
    pub sim_time_ms: u64,
    pub faults: BTreeMap<&'static str, u64>,
    pub probes: BTreeMap<&'static str, u64>,
    pub crash_points: u64,
    pub foreign: u64,
    pub foreign_samples: Vec<String>,
    pub known_hits: BTreeMap<String, u64>,
    pub samples: Vec<serde_json::Value>,
    pub max_choices: usize,
}

impl Agg {
    fn merge(&mut self, o: Agg) {
        self.runs += o.runs;
        self.nontrivial_hashes.extend(o.nontrivial_hashes);
        self.all_hashes.extend(o.all_hashes);
        self.states.extend(o.states);
        self.steps += o.steps;
        self.sim_time_ms += o.sim_time_ms;
        for (k, v) in o.faults {
            *self.faults.entry(k).or_insert(0) += v;
        }
        for (k, v) in o.probes {
            *self.probes.entry(k).or_insert(0) += v;
        }
        self.crash_points += o.crash_points;
        self.foreign += o.foreign;
        for s in o.foreign_samples {
            if self.foreign_samples.len() < 5 && !self.foreign_samples.contains(&s) {
                self.foreign_samples.push(s);
            }
        }
        for (k, v) in o.known_hits {
            *self.known_hits.entry(k).or_insert(0) += v;
        }
        self.samples.extend(o.samples);
        self.max_choices = self.max_choices.max(o.max_choices);
    }
}

pub struct Found {
    pub index: u64,
    pub run_seed: u64,
    pub log: Vec<u32>,
    pub violation: Violation,
    pub hash: u64,
}

pub struct BatchResult {
    pub agg: Agg,
    pub found: Option<Found>,
    pub wall: Duration,
    pub capped_at: Option<u64>,
    pub determinism_ok: bool,
    pub harness_error: Option<String>,
    /// The first runs, executed a second time, gave another trace: the code
    /// under test has a source of nondeterminism the simulator does not own.
    pub nondeterminism: Option<String>,
}

pub fn is_known<'a>(known: &'a [KnownFinding], v: &Violation) -> Option<&'a KnownFinding> {
    known
        .iter()
        .find(|k| k.property == v.property && k.sig == v.class)
}

/// One run under `catch_unwind`; a panic that escapes the engine is reported
/// as foreign (code under test) or as a harness error (our own code).
pub fn run_one(
    f: &RunFn,
    ch: &mut Choices,
    rep: &mut RunReport,
) -> Result<Outcome, String> {
    set_quiet(true);
    let r = guarded(|| f(ch, rep));
    set_quiet(false);
    match r {
        Ok(o) => Ok(o),
        Err((loc, msg)) => {
            if loc.starts_with("HARNESS:") {
                Err(format!("harness panic at {loc}: {msg}"))
            } else {
                Ok(Outcome::Foreign(format!("panic:{loc}")))
            }
        }
    }
}

// ----- heartbeat of long runs (fault-enumeration engines re-execute one history
// hundreds of times): the hang monitor measures the time since the last sign of
// life of a worker, not since the start of its run

static HEARTBEATS: [AtomicU64; 256] = [const { AtomicU64::new(0) }; 256];
static EPOCH: std::sync::OnceLock<Instant> = std::sync::OnceLock::new();
thread_local! {
    static WORKER: std::cell::Cell<usize> = const { std::cell::Cell::new(usize::MAX) };
}

fn epoch_ms() -> u64 {
    EPOCH.get_or_init(Instant::now).elapsed().as_millis() as u64
}

/// Called by engines between the sub-runs of one run.
pub fn heartbeat() {
    let w = WORKER.with(|c| c.get());
    if w < HEARTBEATS.len() {
        HEARTBEATS[w].store(epoch_ms(), Ordering::Relaxed);
    }
}

pub fn run_batch(cfg: &BatchCfg<'_>, f: &RunFn) -> BatchResult {
    let start = Instant::now();
    let _ = epoch_ms();
    let next = AtomicU64::new(0);
    let stop_at = AtomicU64::new(u64::MAX);
    let capped = AtomicBool::new(false);
    let found: Mutex<Vec<Found>> = Mutex::new(Vec::new());
    let harness_error: Mutex<Option<String>> = Mutex::new(None);
    let first_hashes: Mutex<BTreeMap<u64, u64>> = Mutex::new(BTreeMap::new());
    let total = Mutex::new(Agg::default());
    let recheck_n: u64 = 32.min(cfg.runs);
    // per worker: (run index + 1, or 0 when idle; start of that run in ms since `start`)
    let current: Vec<(AtomicU64, AtomicU64)> =
        (0..cfg.workers).map(|_| (AtomicU64::new(0), AtomicU64::new(0))).collect();
    let active = AtomicU64::new(cfg.workers as u64);

    std::thread::scope(|s| {
        if let Some(on_hang) = cfg.on_hang {
            let current = &current;
            let active = &active;
            s.spawn(move || {
                while active.load(Ordering::SeqCst) > 0 {
                    std::thread::sleep(Duration::from_millis(200));
                    let now = epoch_ms();
                    for (w, (idx, t0)) in current.iter().enumerate() {
                        let i = idx.load(Ordering::SeqCst);
                        let alive = t0.load(Ordering::SeqCst).max(HEARTBEATS[w.min(255)].load(Ordering::Relaxed));
                        if i > 0 && now.saturating_sub(alive) > cfg.hang_after.as_millis() as u64 {
                            // still the same run?
                            if idx.load(Ordering::SeqCst) == i {
                                on_hang(i - 1, mix(cfg.seed, i - 1));
                            }
                        }
                    }
                }
            });
        }
        for w in 0..cfg.workers {
            let current = &current;
            let active = &active;
            let next = &next;
            let stop_at = &stop_at;
            let capped = &capped;
            let found = &found;
            let harness_error = &harness_error;
            let first_hashes = &first_hashes;
            let total = &total;
            std::thread::Builder::new()
                .name(format!("sim-{w}"))
                .stack_size(16 << 20)
                .spawn_scoped(s, move || {
                    let mut agg = Agg::default();
                    WORKER.with(|c| c.set(w));
                    loop {
                        current[w].0.store(0, Ordering::SeqCst);
                        let i = next.fetch_add(1, Ordering::SeqCst);
                        if i >= cfg.runs || i > stop_at.load(Ordering::SeqCst) {
                            break;
                        }
                        if i % 64 == 0 && start.elapsed() > cfg.wall_cap {
                            capped.store(true, Ordering::SeqCst);
                            stop_at.fetch_min(i, Ordering::SeqCst);
                            break;
                        }
                        let run_seed = mix(cfg.seed, i);
                        current[w].1.store(epoch_ms(), Ordering::SeqCst);
                        current[w].0.store(i + 1, Ordering::SeqCst);
                        let mut ch = Choices::generate(run_seed);
                        let record = (i as usize) < cfg.samples;
                        let mut rep = RunReport::new(record);
                        let out = match run_one(f, &mut ch, &mut rep) {
                            Ok(o) => o,
                            Err(e) => {
                                *harness_error.lock().unwrap() =
                                    Some(format!("{e} (run {i}, seed {run_seed})"));
                                stop_at.fetch_min(i, Ordering::SeqCst);
                                break;
                            }
                        };
                        agg.runs += 1;
                        agg.steps += rep.steps as u64;
                        agg.sim_time_ms += rep.sim_time_ms;
                        agg.crash_points += rep.crash_points;
                        agg.max_choices = agg.max_choices.max(ch.log.len());
                        agg.all_hashes.insert(rep.hash);
                        if rep.nontrivial {
                            agg.nontrivial_hashes.insert(rep.hash);
                        }
                        agg.states.extend(rep.states.iter().copied());
                        for (k, v) in &rep.faults {
                            *agg.faults.entry(k).or_insert(0) += v;
                        }
                        for (k, v) in &rep.probes {
                            *agg.probes.entry(k).or_insert(0) += v;
                        }
                        if i < recheck_n {
                            first_hashes.lock().unwrap().insert(i, rep.hash);
                        }
                        if record {
                            let lines = rep.lines.take().unwrap_or_default();
                            let shown: Vec<&String> = lines.iter().take(60).collect();
                            agg.samples.push(serde_json::json!({
                                "run": i,
                                "run_seed": run_seed,
                                "config": rep.config,
                                "trace_lines": lines.len(),
                                "trace_head": shown,
                            }));
                        }
                        match out {
                            Outcome::Ok => {}
                            Outcome::Foreign(what) => {
                                agg.foreign += 1;
                                if agg.foreign_samples.len() < 5
                                    && !agg.foreign_samples.contains(&what)
                                {
                                    agg.foreign_samples.push(what);
                                }
                            }
                            Outcome::Violation(v) => {
                                if let Some(k) = is_known(cfg.known, &v) {
                                    *agg.known_hits.entry(k.sig.clone()).or_insert(0) += 1;
                                } else {
                                    stop_at.fetch_min(i, Ordering::SeqCst);
                                    found.lock().unwrap().push(Found {
                                        index: i,
                                        run_seed,
                                        log: ch.log.clone(),
                                        violation: v,
                                        hash: rep.hash,
                                    });
                                }
                            }
                        }
                    }
                    total.lock().unwrap().merge(agg);
                    current[w].0.store(0, Ordering::SeqCst);
                    active.fetch_sub(1, Ordering::SeqCst);
                })
                .expect("spawn worker");
        }
    });

    let mut agg = std::mem::take(&mut *total.lock().unwrap());
    agg.samples
        .sort_by_key(|s| s.get("run").and_then(|r| r.as_u64()).unwrap_or(0));
    let mut founds = std::mem::take(&mut *found.lock().unwrap());
    founds.sort_by_key(|f| f.index);
    let found = founds.into_iter().next();

    // determinism recheck: the first runs again, on this thread
    let mut determinism_ok = true;
    let mut nondeterminism: Option<String> = None;
    let mut herr = harness_error.lock().unwrap().take();
    if herr.is_none() {
        let firsts = first_hashes.lock().unwrap().clone();
        for (i, h) in firsts {
            let mut ch = Choices::generate(mix(cfg.seed, i));
            let mut rep = RunReport::new(false);
            match run_one(f, &mut ch, &mut rep) {
                Ok(_) => {
                    if rep.hash != h {
                        determinism_ok = false;
                        nondeterminism = Some(format!(
                            "determinism recheck failed on run {i}: {h:016x} vs {:016x}",
                            rep.hash
                        ));
                        break;
                    }
                }
                Err(e) => {
                    herr = Some(e);
                    break;
                }
            }
        }
    }

    let capped_at = if capped.load(Ordering::SeqCst) {
        Some(agg.runs)
    } else {
        None
    };
    BatchResult {
        agg,
        found,
        wall: start.elapsed(),
        capped_at,
        determinism_ok,
        harness_error: herr,
        nondeterminism,
    }
}

// ---------------------------------------------------------------------------
// Shrinking on the choice sequence
// ---------------------------------------------------------------------------

pub struct ShrinkResult {
    pub log: Vec<u32>,
    pub executions: u32,
}

/// Re-executes `log`; returns the violation class if the same property is
/// violated, and the log actually consumed.
fn try_log(f: &RunFn, seed: u64, log: &[u32], property: &str) -> Option<(String, Vec<u32>)> {
    let mut ch = Choices::replay(seed, log.to_vec());
    let mut rep = RunReport::new(false);
    match run_one(f, &mut ch, &mut rep) {
        Ok(Outcome::Violation(v)) if v.property == property => Some((v.class, ch.log)),
        _ => None,
    }
}

pub fn shrink(f: &RunFn, seed: u64, log: Vec<u32>, property: &str, class: &str) -> ShrinkResult {
    let start = Instant::now();
    let budget_execs = 30_000u32;
    let budget_time = Duration::from_secs(15);
    let mut execs = 0u32;
    let mut best = log;
    let mut ok = |cand: &[u32], execs: &mut u32| -> Option<Vec<u32>> {
        if *execs >= budget_execs || start.elapsed() > budget_time {
            return None;
        }
        *execs += 1;
        match try_log(f, seed, cand, property) {
            Some((c, used)) if c == class => {
                // keep only what was consumed (drops an unused tail for free)
                Some(used)
            }
            _ => None,
        }
    };

    // normalise: what the run really consumed
    if let Some(used) = ok(&best, &mut execs) {
        best = used;
    } else {
        return ShrinkResult {
            log: best,
            executions: execs,
        };
    }

    let mut improved = true;
    while improved && execs < budget_execs && start.elapsed() < budget_time {
        improved = false;
        // 1. truncate the tail (binary search on length)
        let mut lo = 0usize;
        let mut hi = best.len();
        while lo < hi {
            let mid = (lo + hi) / 2;
            match ok(&best[..mid], &mut execs) {
                Some(used) if used.len() < best.len() => {
                    improved = true;
                    best = used;
                    hi = best.len().min(mid);
                }
                _ => {
                    lo = mid + 1;
                }
            }
            if execs >= budget_execs {
                break;
            }
        }
        // 2a. zero whole blocks: keeps every later choice at its position, so
        // the rest of the run is interpreted as before while the zeroed steps
        // degenerate to the first enabled (usually harmless) action
        let mut size = (best.len() / 2).max(1);
        while size >= 2 {
            let mut i = 0;
            while i + size <= best.len() {
                if best[i..i + size].iter().any(|v| *v != 0) {
                    let mut cand = best.clone();
                    for v in cand[i..i + size].iter_mut() {
                        *v = 0;
                    }
                    if let Some(used) = ok(&cand, &mut execs) {
                        if used.len() <= best.len() {
                            best = used;
                            improved = true;
                        }
                    }
                }
                i += size;
                if execs >= budget_execs {
                    break;
                }
            }
            if execs >= budget_execs {
                break;
            }
            size /= 2;
        }
        // 2b. delete blocks
        let mut size = (best.len() / 2).max(1);
        while size >= 1 {
            let mut i = 0;
            while i + size <= best.len() {
                let mut cand = best.clone();
                cand.drain(i..i + size);
                if let Some(used) = ok(&cand, &mut execs) {
                    if used.len() < best.len() {
                        best = used;
                        improved = true;
                        continue;
                    }
                }
                i += size;
                if execs >= budget_execs {
                    break;
                }
            }
            if size == 1 || execs >= budget_execs {
                break;
            }
            size /= 2;
        }
        // 3. zero / halve single values
        let mut i = 0;
        while i < best.len() && execs < budget_execs {
            if best[i] != 0 {
                let mut cand = best.clone();
                cand[i] = 0;
                if let Some(used) = ok(&cand, &mut execs) {
                    if used.len() <= best.len() {
                        best = used;
                        improved = true;
                        i += 1;
                        continue;
                    }
                }
                let mut v = best[i];
                while v > 1 {
                    v /= 2;
                    let mut cand = best.clone();
                    if i >= cand.len() {
                        break;
                    }
                    cand[i] = v;
                    if let Some(used) = ok(&cand, &mut execs) {
                        if used.len() <= best.len() {
                            best = used;
                            improved = true;
                            continue;
                        }
                    }
                    break;
                }
            }
            i += 1;
        }
    }
    ShrinkResult {
        log: best,
        executions: execs,
    }
}
