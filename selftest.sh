#!/bin/bash
# ./check selftest determinism [props...]: every engine's first N seeds are run
# in two separate processes, one with 1 worker and one with 16; the per-run
# trace hashes must be identical.
set -u
HERE="$(cd "$(dirname "$0")" && pwd)"
BIN="$HERE/sim/target/release/verifsim"
mode="${1:-determinism}"
shift || true
case "$mode" in
determinism)
    props="$*"
    [ -z "$props" ] && props="$($BIN list | awk '{print $1}')"
    n="${VERIF_SELFTEST_N:-300}"
    rc=0
    for p in $props; do
        n="${VERIF_SELFTEST_N:-300}"
        # fault-enumeration engines re-execute each history hundreds of times
        case "$p" in C02) [ -z "${VERIF_SELFTEST_N:-}" ] && n=24 ;; C11) [ -z "${VERIF_SELFTEST_N:-}" ] && n=100 ;; esac
        a="$(mktemp)"; b="$(mktemp)"
        "$BIN" hashes "$p" quick "$n" 1 >"$a"
        "$BIN" hashes "$p" quick "$n" 16 >"$b"
        if cmp -s "$a" "$b"; then
            echo "determinism $p: ok ($n seeds, 2 processes, 1 vs 16 workers)"
        else
            echo "determinism $p: MISMATCH"; diff "$a" "$b" | head -5; rc=2
        fi
        rm -f "$a" "$b"
    done
    exit $rc
    ;;
*)
    echo "unknown selftest $mode" >&2; exit 2 ;;
esac
