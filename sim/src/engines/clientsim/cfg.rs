//! Per-run configuration of clientsim, drawn from `Choices`.

use crate::choices::Choices;

#[derive(Clone, Copy, Debug, PartialEq, Eq)]
pub enum P {
    C02,
    C07,
    C10,
    C11,
    C18,
    /// The oversize clause of C05 seen through the whole client (the limit
    /// lives in `Network`, which only the event loop can reach): a C10-style
    /// run in which the broker sends one frame above the client's limit.
    C05,
}

impl P {
    pub fn id(self) -> &'static str {
        match self {
            P::C02 => "C02",
            P::C07 => "C07",
            P::C10 => "C10",
            P::C11 => "C11",
            P::C18 => "C18",
            P::C05 => "C05",
        }
    }
}

#[derive(Clone, Copy, Debug, PartialEq, Eq)]
pub enum AckOrder {
    InOrder,
    Reversed,
    Random,
    /// PUBACKs strictly oldest first; PUBRECs and PUBCOMPs at any moment (the
    /// two QoS 2 round trips overtake and are overtaken by QoS 1 acks).
    PerQos,
}

#[derive(Clone, Copy, Debug, PartialEq, Eq)]
pub enum PingMode {
    Prompt,
    /// Answer after a seeded delay in [0, K - 5 ms].
    Delayed,
    Never,
}

#[derive(Clone, Copy, Debug, PartialEq, Eq)]
pub enum C18Mode {
    /// Not a C18 run.
    Off,
    /// Every PINGREQ answered within the interval, 20 intervals.
    Answer,
    /// The broker goes silent at a seeded instant.
    Silent,
    /// As Silent, and the connection turns half-open at that instant.
    SilentHalfOpen,
    /// As Silent, and the broker also stops reading (client writes refused).
    SilentStalled,
    /// Keep-alive zero: ten simulated minutes without PINGREQ.
    Zero,
    /// CONNECT is never answered.
    NoConnAck,
    /// Only the first byte of CONNACK arrives.
    PartialConnAck,
    /// The transport connect itself never completes.
    HangConnect,
}

#[derive(Clone, Debug)]
pub struct Cfg {
    pub prop: P,
    pub v5: bool,
    pub limit: u16,
    pub cap: usize,
    pub keep_alive_s: u64,
    pub conn_timeout_s: u64,
    pub manual_acks: bool,
    pub throttle_us: u64,
    pub n_requests: u32,
    /// Weights of user request kinds: QoS0, QoS1, QoS2 publish, subscribe, unsubscribe.
    pub w_req: [u32; 5],
    pub order: AckOrder,
    /// Weight of the "script acks something" action (others: user 4, idle 2).
    pub w_ack: u32,
    /// Per-mille of owed acks that are never sent.
    pub never_pm: u32,
    /// Weight of bad-ack injection (duplicate, unknown id, id above limit).
    pub w_bad: u32,
    /// Weight of inbound traffic (PUBLISH QoS0-2, PUBREL known/unknown).
    pub w_inbound: u32,
    /// Per-cent of v5 acks carrying a failure / no-matching-subscribers reason.
    pub reason_pc: u32,
    /// Weight of the script closing the connection.
    pub w_close: u32,
    /// Weight of server DISCONNECT (v5).
    pub w_srv_disc: u32,
    /// The script sends one frame above the client's incoming limit (C05 runs).
    pub oversize: bool,
    pub ping: PingMode,
    /// Per-cent of reconnects answered with session_present = 1.
    pub sp_pc: u32,
    /// v5: per-cent of CONNACKs carrying receive_max (drawn below the limit).
    pub recv_max_pc: u32,
    pub alias_max: Option<u16>,
    pub eof_on_break: bool,
    pub read_chunks: Vec<usize>,
    pub write_chunks: Vec<usize>,
    pub max_steps: u32,
    /// Per-cent chance of a further cut after a cut fired.
    pub recut_pc: u32,
    pub c18: C18Mode,
    /// C18: traffic: bit 0 user publishes, bit 1 inbound publishes.
    pub c18_traffic: u32,
    pub rng_seed: u32,
}

fn chunks(ch: &mut Choices) -> Vec<usize> {
    match ch.pick(4) {
        0 => vec![usize::MAX],
        1 => vec![1],
        2 => (0..4)
            .map(|_| *ch.choose(&[1usize, 2, 3, 5, 8, 64]))
            .collect(),
        _ => vec![usize::MAX, 2, usize::MAX, 7],
    }
}

impl Cfg {
    pub fn draw(prop: P, ch: &mut Choices) -> Cfg {
        let rng_seed = ch.pick(1 << 16);
        let v5 = ch.coin(1, 2);
        let mut c = Cfg {
            prop,
            v5,
            limit: 10,
            cap: 10,
            keep_alive_s: 60,
            conn_timeout_s: 5,
            manual_acks: false,
            throttle_us: *ch.choose(&[0u64, 0, 100, 5_000]),
            n_requests: 10,
            w_req: [2, 5, 3, 1, 1],
            order: AckOrder::InOrder,
            w_ack: 4,
            never_pm: 0,
            w_bad: 0,
            w_inbound: 0,
            reason_pc: 0,
            w_close: 0,
            w_srv_disc: 0,
            oversize: false,
            ping: PingMode::Prompt,
            sp_pc: 70,
            recv_max_pc: 0,
            alias_max: None,
            eof_on_break: ch.coin(1, 2),
            read_chunks: chunks(ch),
            write_chunks: chunks(ch),
            max_steps: 600,
            recut_pc: 0,
            c18: C18Mode::Off,
            c18_traffic: 0,
            rng_seed,
        };
        match prop {
            P::C02 => {
                c.limit = *ch.choose(&[1u16, 2, 3, 5, 10, 100]);
                c.cap = *ch.choose(&[1usize, 3, 10, 10]);
                c.n_requests = ch.range(1, 30);
                c.w_req = *ch.choose(&[[2, 5, 3, 1, 0], [0, 1, 1, 0, 0], [1, 4, 0, 1, 1], [1, 0, 4, 0, 0]]);
                c.order = *ch.choose(&[
                    AckOrder::InOrder,
                    AckOrder::Reversed,
                    AckOrder::Random,
                    AckOrder::Random,
                ]);
                c.w_ack = *ch.choose(&[1u32, 3, 8]);
                c.never_pm = *ch.choose(&[0u32, 0, 50, 200]);
                c.w_bad = *ch.choose(&[0u32, 0, 0, 1]);
                if v5 {
                    c.reason_pc = *ch.choose(&[0u32, 0, 15]);
                    c.recv_max_pc = *ch.choose(&[0u32, 30]);
                }
                c.sp_pc = *ch.choose(&[100u32, 70, 70, 30]);
                c.recut_pc = 30;
                c.max_steps = 500;
            }
            P::C11 => {
                // histories long enough for ids to wrap; a good share with the
                // in-order QoS1 v4 setting of the ordering clause
                let ordered = ch.coin(1, 2);
                if ordered {
                    c.v5 = false;
                    c.w_req = *ch.choose(&[[1, 8, 0, 0, 0], [0, 1, 0, 0, 0], [1, 8, 0, 1, 0], [0, 6, 2, 0, 0]]);
                    c.order = AckOrder::InOrder;
                    // no new draw (the choice stream of every other run is
                    // unchanged): half of the mixed-QoS ordered runs let QoS 2
                    // flows complete around unacknowledged QoS 1 publishes
                    if c.w_req[2] > 0 && rng_seed % 2 == 0 {
                        c.order = AckOrder::PerQos;
                    }
                } else {
                    c.w_req = *ch.choose(&[[2, 5, 3, 1, 0], [0, 1, 1, 0, 0]]);
                    c.order = *ch.choose(&[AckOrder::InOrder, AckOrder::Random]);
                    if c.v5 {
                        c.recv_max_pc = *ch.choose(&[0u32, 0, 30]);
                    }
                }
                c.limit = *ch.choose(&[3u16, 4, 5, 10]);
                c.cap = *ch.choose(&[1usize, 5, 5, 10]);
                c.n_requests = ch.range(3, 30);
                c.w_ack = *ch.choose(&[2u32, 4, 8]);
                c.sp_pc = *ch.choose(&[100u32, 70, 50]);
                c.recut_pc = 40;
                c.max_steps = 500;
            }
            P::C07 => {
                c.limit = *ch.choose(&[1u16, 2, 3, 3, 5, 5, 10, 100, 65535]);
                c.cap = *ch.choose(&[1usize, 5, 10, 20]);
                c.n_requests = if c.limit == 65535 { ch.range(1, 40) } else { ch.range(1, 200) };
                c.w_req = *ch.choose(&[[2, 5, 3, 1, 1], [0, 1, 1, 0, 0], [1, 6, 0, 1, 0], [0, 1, 3, 0, 0]]);
                c.order = *ch.choose(&[
                    AckOrder::InOrder,
                    AckOrder::Reversed,
                    AckOrder::Random,
                    AckOrder::Random,
                ]);
                c.w_ack = *ch.choose(&[1u32, 3, 8]);
                c.never_pm = *ch.choose(&[0u32, 0, 30, 150]);
                c.w_bad = *ch.choose(&[0u32, 0, 1]);
                c.w_close = *ch.choose(&[0u32, 0, 1]);
                if c.v5 {
                    c.reason_pc = *ch.choose(&[0u32, 0, 10, 30]);
                    c.recv_max_pc = *ch.choose(&[0u32, 50]);
                }
                c.sp_pc = *ch.choose(&[100u32, 60, 20]);
                c.max_steps = 300 + c.n_requests * 12;
            }
            P::C10 | P::C05 => {
                c.limit = *ch.choose(&[1u16, 2, 5, 10, 100]);
                c.cap = 10;
                c.manual_acks = ch.coin(1, 3);
                c.n_requests = ch.range(0, 25);
                c.w_req = *ch.choose(&[[2, 4, 3, 1, 1], [1, 1, 1, 0, 0]]);
                c.order = *ch.choose(&[AckOrder::InOrder, AckOrder::Random]);
                c.w_ack = *ch.choose(&[2u32, 6]);
                c.w_bad = *ch.choose(&[0u32, 1, 2]);
                c.w_inbound = *ch.choose(&[3u32, 6, 10]);
                if c.v5 {
                    c.reason_pc = *ch.choose(&[0u32, 10, 30]);
                    c.w_srv_disc = *ch.choose(&[0u32, 0, 1]);
                    c.alias_max = *ch.choose(&[None, Some(3u16)]);
                }
                c.sp_pc = 50;
                c.max_steps = 400;
                if prop == P::C05 {
                    c.oversize = true;
                    c.w_bad = 0;
                    c.w_srv_disc = 0;
                    c.w_inbound = 6;
                }
            }
            P::C18 => {
                // a small window with acks that never come: publishes get parked on
                // id collisions, also at the moment the broker goes silent
                let small_window = ch.coin(1, 4);
                let modes: &[C18Mode] = if c.v5 {
                    &[
                        C18Mode::Answer,
                        C18Mode::Answer,
                        C18Mode::Silent,
                        C18Mode::Silent,
                        C18Mode::SilentHalfOpen,
                        C18Mode::SilentStalled,
                        C18Mode::NoConnAck,
                        C18Mode::PartialConnAck,
                        C18Mode::HangConnect,
                    ]
                } else {
                    &[
                        C18Mode::Answer,
                        C18Mode::Answer,
                        C18Mode::Silent,
                        C18Mode::Silent,
                        C18Mode::SilentHalfOpen,
                        C18Mode::SilentStalled,
                        C18Mode::Zero,
                        C18Mode::NoConnAck,
                        C18Mode::PartialConnAck,
                        C18Mode::HangConnect,
                    ]
                };
                c.c18 = *ch.choose(modes);
                c.keep_alive_s = if c.c18 == C18Mode::Zero {
                    0
                } else if c.v5 {
                    *ch.choose(&[5u64, 5, 60])
                } else {
                    *ch.choose(&[1u64, 1, 5, 60])
                };
                c.conn_timeout_s = *ch.choose(&[1u64, 2, 5]);
                c.limit = 100;
                c.cap = 10;
                c.c18_traffic = ch.pick(4);
                c.n_requests = if c.c18_traffic & 1 != 0 { ch.range(1, 40) } else { 0 };
                c.w_req = [2, 3, 1, 0, 0];
                if small_window {
                    c.limit = 3;
                    c.never_pm = 150;
                    c.order = AckOrder::Random;
                    c.w_req = [0, 4, 1, 0, 0];
                    c.n_requests = c.n_requests.max(12);
                }
                c.w_inbound = if c.c18_traffic & 2 != 0 { 2 } else { 0 };
                c.ping = if c.c18 == C18Mode::Answer {
                    *ch.choose(&[PingMode::Prompt, PingMode::Delayed, PingMode::Delayed])
                } else {
                    *ch.choose(&[PingMode::Prompt, PingMode::Delayed])
                };
                c.throttle_us = 0;
                c.max_steps = 3000;
            }
        }
        c
    }

    pub fn short(&self) -> String {
        format!(
            "{} {} limit={} cap={} ka={}s ct={}s manual={} n={} w={:?} order={:?} w_ack={} never={} bad={} inb={} reason={} close={} sp={} rm={} c18={:?}/{} ping={:?} eof={} rch={:?} wch={:?} thr={}us",
            self.prop.id(),
            if self.v5 { "v5" } else { "v4" },
            self.limit,
            self.cap,
            self.keep_alive_s,
            self.conn_timeout_s,
            self.manual_acks,
            self.n_requests,
            self.w_req,
            self.order,
            self.w_ack,
            self.never_pm,
            self.w_bad,
            self.w_inbound,
            self.reason_pc,
            self.w_close,
            self.sp_pc,
            self.recv_max_pc,
            self.c18,
            self.c18_traffic,
            self.ping,
            self.eof_on_break,
            self.read_chunks.iter().map(|c| if *c == usize::MAX { 0 } else { *c }).collect::<Vec<_>>(),
            self.write_chunks.iter().map(|c| if *c == usize::MAX { 0 } else { *c }).collect::<Vec<_>>(),
            self.throttle_us,
        )
    }
}
