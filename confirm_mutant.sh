#!/bin/bash
# usage: confirm_mutant.sh <worktree> <patch.diff> <crate> <demo test target name> [demo file -> dest path]
# Confirms in the scratch worktree: with the patch the crate builds, its existing tests pass and the
# demonstration fails; without the patch the demonstration passes. Prints a one-line verdict.
set -u
wt="$1"; patch="$2"; crate="$3"; demo="$4"
cd "$wt" || exit 2
export CARGO_NET_OFFLINE=true
git checkout -q -- . 
git apply "$patch" || { echo "VERDICT $patch: patch does not apply"; exit 2; }
cargo test -p "$crate" --offline --lib > /tmp/confirm_lib.txt 2>&1; lib_with=$?
cargo test -p "$crate" --offline --test "$demo" > /tmp/confirm_demo_with.txt 2>&1; demo_with=$?
git checkout -q -- .
cargo test -p "$crate" --offline --test "$demo" > /tmp/confirm_demo_without.txt 2>&1; demo_without=$?
echo "VERDICT $patch: existing_lib_tests_with_patch=$lib_with (0=pass) demo_with_patch=$demo_with (nonzero=fails) demo_without_patch=$demo_without (0=pass)"
grep -E "^test result" /tmp/confirm_lib.txt | head -3
