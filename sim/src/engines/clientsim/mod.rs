//! clientsim: the real rumqttc client (AsyncClient + EventLoop::poll +
//! MqttState + Network/Framed + codecs, v4 and v5) against a scripted broker
//! on an in-memory transport and paused tokio time. Properties C02, C07,
//! C10, C11, C18.
//!
//! One run = one tokio current-thread runtime (paused clock, RNG seeded from
//! the choice sequence so that `select!` branch order is repeatable), one
//! `block_on`.

#[allow(dead_code)]
mod c18;
mod cfg;
mod checks;
mod cl;
mod net;
mod proto;
mod world;

pub use cfg::P;

use crate::choices::Choices;
use crate::core::{fnv, guarded, Outcome, RunReport, Tier, Violation};
use crate::tr;
use cfg::Cfg;
use net::{Dir, Net};
use world::World;

/// Upper bound of an enumerated cut offset in single-point mode.
const K_MAX: u32 = 8192;

pub fn run(prop: P, tier: Tier, ch: &mut Choices, rep: &mut RunReport) -> Outcome {
    match prop {
        P::C02 | P::C11 => run_enum(prop, tier, ch, rep),
        _ => run_single(prop, ch, rep, None).0,
    }
}

/// Fault enumeration (same protocol as routersim's C08): first choice 0 =
/// every cut offset of both byte streams of the seeded history, 1 = the one
/// crash point given by the next two choices.
fn run_enum(prop: P, _tier: Tier, ch: &mut Choices, rep: &mut RunReport) -> Outcome {
    let mode = ch.pick_forced(2, 0);
    if mode == 1 {
        let d = ch.pick(2);
        let k = ch.pick(K_MAX);
        let dir = if d == 0 { Dir::C2S } else { Dir::S2C };
        return run_single(prop, ch, rep, Some((dir, k as u64))).0;
    }
    let mut base = ch.clone();
    base.log.clear();
    // the fault-free history first: it gives the lengths of both streams
    let (n_c2s, n_s2c) = {
        let mut sub = base.clone();
        let mut subrep = RunReport::new(rep.lines.is_some());
        let (out, totals) = run_single(prop, &mut sub, &mut subrep, None);
        merge(rep, &mut subrep, true, "fault-free history");
        rep.crash_points += 1;
        match out {
            Outcome::Ok => {}
            other => {
                // replays as "a cut beyond the end of the stream"
                let mut log = vec![1u32, 0, K_MAX - 1];
                log.extend(sub.log.iter().copied());
                ch.log = log;
                return other;
            }
        }
        totals
    };
    let mut any_nontrivial = rep.nontrivial;
    for (d, n) in [(0u32, n_c2s), (1u32, n_s2c)] {
        let dir = if d == 0 { Dir::C2S } else { Dir::S2C };
        for k in 0..n.min(K_MAX as u64 - 1) {
            let mut sub = base.clone();
            let mut subrep = RunReport::new(false);
            crate::core::heartbeat();
            let (out, _) = run_single(prop, &mut sub, &mut subrep, Some((dir, k)));
            merge(rep, &mut subrep, false, "");
            rep.crash_points += 1;
            any_nontrivial |= subrep.nontrivial;
            match out {
                Outcome::Ok => {}
                other => {
                    let mut log = vec![1u32, d, k as u32];
                    log.extend(sub.log.iter().copied());
                    ch.log = log;
                    return other;
                }
            }
        }
    }
    rep.nontrivial = any_nontrivial;
    Outcome::Ok
}

fn merge(rep: &mut RunReport, sub: &mut RunReport, first: bool, title: &str) {
    fnv(&mut rep.hash, &sub.hash.to_le_bytes());
    rep.steps += sub.steps;
    rep.sim_time_ms += sub.sim_time_ms;
    rep.nontrivial |= sub.nontrivial;
    for (k, v) in sub.faults.iter() {
        *rep.faults.entry(k).or_insert(0) += v;
    }
    for (k, v) in sub.probes.iter() {
        *rep.probes.entry(k).or_insert(0) += v;
    }
    rep.states.extend(sub.states.iter().copied());
    if first {
        rep.config = sub.config.clone();
        if let (Some(dst), Some(src)) = (rep.lines.as_mut(), sub.lines.take()) {
            dst.push(format!("== {title}"));
            dst.extend(src);
        }
    }
}

/// One simulated run; returns the outcome and the total bytes of both streams.
fn run_single(
    prop: P,
    ch: &mut Choices,
    rep: &mut RunReport,
    cut: Option<(Dir, u64)>,
) -> (Outcome, (u64, u64)) {
    let cfg = Cfg::draw(prop, ch);
    rep.config = cfg.short();
    tr!(rep, "cfg {}", cfg.short());
    if let Some((d, k)) = cut {
        tr!(rep, "crash point: cut {d:?} after {k} bytes");
    }
    rep.probe(if cfg.v5 { "client_v5" } else { "client_v4" });

    let net = Net::new(cfg.read_chunks.clone(), cfg.write_chunks.clone(), cfg.eof_on_break);
    if let Some((d, k)) = cut {
        let mut n = net.lock().unwrap();
        match d {
            Dir::C2S => n.cut_c2s_at = Some(k),
            Dir::S2C => n.cut_s2c_at = Some(k),
        }
    }
    let mut seed = [0u8; 32];
    seed[..4].copy_from_slice(&cfg.rng_seed.to_le_bytes());
    seed[4] = 0x5a;

    let net2 = net.clone();
    let prop_id = prop.id();
    let r = guarded(|| {
        let rt = tokio::runtime::Builder::new_current_thread()
            .enable_time()
            .start_paused(true)
            .rng_seed(tokio::runtime::RngSeed::from_bytes(&seed))
            .build()
            .expect("tokio runtime");
        let _guard = net::install_connector(net2.clone());
        let opts = cl::Opts {
            v5: cfg.v5,
            limit: cfg.limit,
            cap: cfg.cap,
            keep_alive_s: cfg.keep_alive_s,
            conn_timeout_s: cfg.conn_timeout_s,
            manual_acks: cfg.manual_acks,
            throttle_us: cfg.throttle_us,
        };
        let (handle, el) = cl::make(&opts);
        let mut w = World::new(cfg.clone(), ch, rep, net2.clone(), handle);
        rt.block_on(world::simulate(&mut w, el));
        let viol = w.viol.take();
        let marks = w.nontrivial_marks;
        let faults = w.faults_fired;
        drop(w);
        drop(rt);
        (viol, marks, faults)
    });
    let totals = {
        let n = net.lock().unwrap();
        (n.c2s_total, n.s2c_total)
    };
    match r {
        Ok((viol, marks, _faults)) => {
            if prop != P::C18 {
                rep.nontrivial = match prop {
                    // a resumed session had something to retransmit, or the
                    // held-invariant was evaluated on a live message
                    P::C02 => marks & 8 != 0,
                    P::C11 => marks & (2 | 4) != 0 || marks & 1 != 0,
                    P::C07 => rep.probes.get("window_full").is_some()
                        || rep.probes.get("window_full_state").is_some()
                        || rep.probes.get("collision_seen").is_some(),
                    P::C10 | P::C05 => marks & 16 != 0,
                    P::C18 => false,
                };
            }
            match viol {
                Some(v) => (Outcome::Violation(v), totals),
                None => (Outcome::Ok, totals),
            }
        }
        Err((loc, msg)) => {
            rumqttc::verif::set_connector(None);
            tr!(rep, "PANIC {loc}: {msg}");
            if loc.starts_with("src/") {
                return (Outcome::Foreign(format!("HARNESS-panic:{loc}:{msg}")), totals);
            }
            // C10 names panics; for the others a client that panics has dropped
            // what it held (C02, C11), cannot resume (C07) and neither pings
            // nor reports (C18)
            (
                Outcome::Violation(Violation {
                    property: prop_id,
                    class: format!("panic:{loc}"),
                    message: format!("the client panicked ({msg}) at {loc}"),
                }),
                totals,
            )
        }
    }
}
