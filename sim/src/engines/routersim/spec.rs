//! Reference broker ("spec broker"): a small executable model of what the
//! properties say a broker does, written independently of rumqttd. It is fed
//! the *acceptance order* (which connection's packets the router took, in
//! which order) and judges everything the router emits.

use slab::Slab;
use std::collections::{HashMap, VecDeque};

/// Independent MQTT topic matcher with this code base's documented `$` rule
/// (a topic whose first character is `$` is matched by no filter).
pub fn spec_matches(topic: &str, filter: &str) -> bool {
    if topic.starts_with('$') {
        return false;
    }
    let t: Vec<&str> = topic.split('/').collect();
    let f: Vec<&str> = filter.split('/').collect();
    let mut i = 0;
    while i < f.len() {
        if f[i] == "#" {
            return true;
        }
        if i >= t.len() {
            return false;
        }
        if f[i] != "+" && f[i] != t[i] {
            return false;
        }
        i += 1;
    }
    t.len() == f.len()
}

#[derive(Clone, Debug, PartialEq, Eq)]
pub enum SimPkt {
    Publish {
        topic: Vec<u8>,
        payload: Vec<u8>,
        qos: u8,
        pkid: u16,
        retain: bool,
    },
    Subscribe {
        pkid: u16,
        filters: Vec<(String, u8)>,
        sub_id: Option<usize>,
    },
    Unsubscribe {
        pkid: u16,
        filters: Vec<String>,
    },
    PubAck(u16),
    PubRec(u16),
    PubRel(u16),
    /// MQTT 5 PUBREL carrying properties (a user property): same meaning.
    PubRelProps(u16),
    PubComp(u16),
    PingReq,
    Disconnect,
    /// A packet the broker ignores (CONNECT inside a session, SUBACK, ...).
    Ignored(&'static str),
    /// An acknowledgement that is certainly unsolicited or out of order
    /// (kind 0 PUBACK, 1 PUBREC, 2 PUBCOMP): the broker must close.
    BadAck(u8, u16),
    /// MQTT 5 publish with a topic alias and/or subscription identifiers.
    PublishV5 {
        topic: Vec<u8>,
        payload: Vec<u8>,
        qos: u8,
        pkid: u16,
        retain: bool,
        alias: Option<u16>,
        sub_ids: bool,
    },
}

#[derive(Clone, Debug)]
pub struct Accepted {
    pub topic: String,
    pub payload: Vec<u8>,
    pub retain: bool,
    pub from_conn: usize,
}

#[derive(Clone, Debug)]
pub struct FLog {
    pub filter: String,
    /// Indexes into `Spec::accepted`; position = absolute offset in the
    /// broker's log for this filter.
    pub entries: Vec<u32>,
}

#[derive(Clone, Debug)]
pub struct Sub {
    /// Filter as subscribed (may be `$share/g/f`).
    pub path: String,
    pub flog: usize,
    pub qos: u8,
    pub group: Option<String>,
    /// Next expected position in the filter log (non-shared only).
    pub pos: usize,
    /// Set when an UNSUBSCRIBE for it was accepted: nothing at or beyond this
    /// position belongs to the subscription.
    pub end: Option<usize>,
    /// UNSUBACK seen in the client's stream: subscription is gone.
    pub gone: bool,
    pub unsub_pkid: Option<u16>,
    pub sub_id: Option<usize>,
    /// QoS the subscription was created with, if a re-subscription changed it.
    pub old_qos: Option<u8>,
    /// Retained replay still owed to this (new, non-shared) subscription:
    /// accepted index at subscribe time (T0).
    pub retained_t0: Option<usize>,
    pub retained_seen: Vec<String>,
    pub first_live_seen: bool,
    /// The UNSUBSCRIBE that ended it came in a batch that had already
    /// appended a message matching this subscription.
    pub unsub_after_same_batch_match: bool,
    /// Granted QoS over time: (number of accepted publishes when granted, QoS).
    pub qos_hist: Vec<(usize, u8)>,
    /// Restored from a saved session (not subscribed on this connection).
    pub restored: bool,
    /// The one-off retained replay of this subscription is certainly over.
    pub replay_closed: bool,
    /// Subscription identifier over time: (accepted count when set, id).
    pub sub_id_hist: Vec<(usize, Option<usize>)>,
}

#[derive(Clone, Debug, PartialEq, Eq)]
pub enum ExpAck {
    PubAck(u16),
    PubRec(u16),
    PubComp(u16),
    SubAck(u16, Vec<u8>),
    UnsubAck(u16),
    PingResp,
}

#[derive(Clone, Debug)]
pub struct Will {
    pub topic: String,
    pub payload: Vec<u8>,
    pub qos: u8,
    pub retain: bool,
}

#[derive(Clone, Debug, Default)]
pub struct Session {
    pub subs: Vec<Sub>,
    /// Positions could not be determined (ambiguous attribution).
    pub uncertain: bool,
}

#[derive(Clone, Debug)]
pub struct Conn {
    pub link: usize,
    pub client_id: String,
    pub clean: bool,
    pub alive: bool,
    pub slot: usize,
    pub session: Session,
    pub session_present: bool,
    /// Replies the broker owes, in request order.
    pub exp_acks: VecDeque<ExpAck>,
    /// PUBRELs the broker owes for the client's PUBRECs.
    pub exp_pubrels: VecDeque<u16>,
    /// Received-but-unreleased QoS 2 publishes.
    pub qos2_in: VecDeque<Accepted>,
    /// Broker-side view of forwarded QoS>0 publishes not yet acknowledged
    /// (pkid), used only for the "unsolicited ack closes the connection" rule.
    pub close_reason: Option<&'static str>,
    /// Number of PUBACK/PUBREC accepted from this client.
    pub acks_accepted: u32,
    pub pubcomps_accepted: u32,
    /// Possible assignments of delivered forwards to subscriptions: each
    /// vector holds, per subscription, the next expected log position.
    /// Topic aliases this client established.
    pub aliases: HashMap<u16, String>,
    pub posvecs: Vec<PosVec>,
    /// Attribution was given up for this connection (sound, counted).
    pub unchecked: bool,
}

/// One possible assignment of the forwards seen so far to subscriptions.
#[derive(Clone, Debug, PartialEq, Eq, PartialOrd, Ord, Default)]
pub struct PosVec {
    /// Per subscription: next expected position in its filter log.
    pub pos: Vec<usize>,
    /// (filter log, from, to): positions from..to were skipped and must have
    /// been discarded by the broker's log.
    pub oblig: Vec<(usize, usize, usize)>,
    /// This assignment needs a forward at the QoS a subscription was
    /// created with although a later SUBACK granted another one.
    pub tainted: bool,
}

#[derive(Debug)]
pub enum ConnectResult {
    Accepted {
        conn: usize,
        slot: usize,
        session_present: bool,
        took_over: Option<usize>,
    },
    Refused(&'static str),
}

pub struct Spec {
    pub max_connections: usize,
    pub accepted: Vec<Accepted>,
    pub flogs: Vec<FLog>,
    pub flog_idx: HashMap<String, usize>,
    pub conns: Vec<Conn>,
    pub slab: Slab<usize>,
    pub by_client: HashMap<String, usize>,
    pub saved: HashMap<String, Session>,
    pub wills: HashMap<String, Will>,
    /// Retained history per topic: (accepted index, Some(payload) | None = cleared | unspecified)
    pub retained: HashMap<String, Vec<(usize, RetainedVal)>>,
    /// Shared groups by name (C17 bookkeeping).
    pub groups: HashMap<String, GroupModel>,
    /// Wills fired: (client id, accepted index)
    pub wills_fired: Vec<(String, usize)>,
}

#[derive(Clone, Debug)]
pub struct Delivery {
    pub conn: usize,
    pub qos: u8,
    pub acked: bool,
}

/// One life of a shared-subscription group: from the first member joining
/// an empty/non-existent group until the last one leaves.
#[derive(Clone, Debug, Default)]
pub struct GroupModel {
    pub flog: usize,
    /// Position in the filter log when the group came into existence.
    pub start: usize,
    /// Member connection indexes (one entry per accepted subscribe).
    pub members: Vec<usize>,
    /// Deliveries through the group, by filter-log position.
    pub delivered: HashMap<usize, Vec<Delivery>>,
    /// The same group name was used with another filter: not judged.
    pub mixed: bool,
    /// Last position delivered to each member connection.
    pub last_j: HashMap<usize, usize>,
    /// A member left or disconnected during this life of the group.
    pub member_left: bool,
}

#[derive(Clone, Debug, PartialEq, Eq)]
pub enum RetainedVal {
    Set(Vec<u8>),
    Cleared,
    Unspecified,
}

pub fn extract_group(path: &str) -> Option<(String, String)> {
    let rest = path.strip_prefix("$share/")?;
    let (g, f) = rest.split_once('/')?;
    Some((g.to_string(), f.to_string()))
}

#[derive(Debug, Clone)]
pub enum Effect {
    /// The broker must close this connection now (rule name).
    Close(usize, &'static str),
}

impl Spec {
    /// Payloads the retained message of `topic` held at some moment from
    /// `t0` (number of accepted publishes) until now; `None` in the list
    /// means "no retained message" was a possible state; the flag says that
    /// an unspecified state occurred in the window.
    pub fn retained_window(&self, topic: &str, t0: usize) -> (Vec<Option<Vec<u8>>>, bool) {
        let mut vals: Vec<Option<Vec<u8>>> = Vec::new();
        let mut unspecified = false;
        let hist = match self.retained.get(topic) {
            Some(h) => h,
            None => return (vec![None], false),
        };
        // state at t0: last entry with index < t0
        let mut at_t0: Option<&RetainedVal> = None;
        for (i, v) in hist.iter() {
            if *i < t0 {
                at_t0 = Some(v);
            }
        }
        let mut push = |v: Option<&RetainedVal>, vals: &mut Vec<Option<Vec<u8>>>, unspecified: &mut bool| match v {
            None | Some(RetainedVal::Cleared) => vals.push(None),
            Some(RetainedVal::Set(p)) => vals.push(Some(p.clone())),
            Some(RetainedVal::Unspecified) => *unspecified = true,
        };
        push(at_t0, &mut vals, &mut unspecified);
        for (i, v) in hist.iter() {
            if *i >= t0 {
                push(Some(v), &mut vals, &mut unspecified);
            }
        }
        (vals, unspecified)
    }

    /// Every payload ever set as retained for this topic.
    pub fn retained_ever(&self, topic: &str, payload: &[u8]) -> bool {
        self.retained
            .get(topic)
            .map(|h| h.iter().any(|(_, v)| matches!(v, RetainedVal::Set(p) if p == payload)))
            .unwrap_or(false)
    }
}

impl Sub {
    /// May a forward of accepted message `m` on this subscription carry
    /// `qos`? Yes if that QoS was the granted one at some moment at or after
    /// the message was accepted (it may have been forwarded any time since).
    /// Identifiers a forward of accepted message `m` may carry.
    pub fn sub_id_ok_for(&self, m: usize, got: &[usize]) -> bool {
        for (i, (_, id)) in self.sub_id_hist.iter().enumerate() {
            let matches = match id {
                Some(x) => got == [*x],
                None => got.is_empty(),
            };
            if !matches {
                continue;
            }
            match self.sub_id_hist.get(i + 1) {
                None => return true,
                Some((t_next, _)) if *t_next > m => return true,
                _ => {}
            }
        }
        false
    }

    pub fn qos_ok_for(&self, m: usize, qos: u8) -> bool {
        for (i, (_, q)) in self.qos_hist.iter().enumerate() {
            if *q != qos {
                continue;
            }
            match self.qos_hist.get(i + 1) {
                None => return true,
                Some((t_next, _)) if *t_next > m => return true,
                _ => {}
            }
        }
        false
    }
}

impl Spec {
    pub fn new(max_connections: usize) -> Spec {
        Spec {
            max_connections,
            accepted: Vec::new(),
            flogs: Vec::new(),
            flog_idx: HashMap::new(),
            conns: Vec::new(),
            slab: Slab::new(),
            by_client: HashMap::new(),
            saved: HashMap::new(),
            wills: HashMap::new(),
            retained: HashMap::new(),
            groups: HashMap::new(),
            wills_fired: Vec::new(),
        }
    }

    /// C08: the broker rewinds a saved subscription to `pos` (oldest
    /// unacknowledged QoS>0 forward). Applied to the saved session, or to the
    /// connection that has just resumed it (takeover).
    pub fn set_resume_position(&mut self, client_id: &str, path: &str, pos: usize) {
        if let Some(sess) = self.saved.get_mut(client_id) {
            for s in sess.subs.iter_mut() {
                if s.path == path {
                    s.pos = pos;
                }
            }
            return;
        }
        if let Some(k) = self.by_client.get(client_id).copied() {
            let conn = &mut self.conns[k];
            for (si, s) in conn.session.subs.iter_mut().enumerate() {
                if s.path == path {
                    s.pos = pos;
                    for pv in conn.posvecs.iter_mut() {
                        pv.pos[si] = pos;
                    }
                }
            }
        }
    }

    pub fn occupant(&self, slot: usize) -> Option<usize> {
        self.slab.get(slot).copied()
    }

    fn flog_for(&mut self, filter: &str) -> usize {
        if let Some(i) = self.flog_idx.get(filter) {
            return *i;
        }
        let i = self.flogs.len();
        self.flogs.push(FLog {
            filter: filter.to_string(),
            entries: Vec::new(),
        });
        self.flog_idx.insert(filter.to_string(), i);
        i
    }

    /// The broker handles a Connect event for `link`.
    pub fn connect(
        &mut self,
        link: usize,
        client_id: &str,
        clean: bool,
        will: Option<Will>,
    ) -> ConnectResult {
        if client_id.chars().any(|c| "+$#/".contains(c)) {
            return ConnectResult::Refused("invalid_client_id");
        }
        let mut took_over = None;
        if let Some(old) = self.by_client.get(client_id).copied() {
            self.close(old, "takeover");
            took_over = Some(old);
        }
        if self.slab.len() >= self.max_connections {
            return ConnectResult::Refused("max_connections");
        }
        let saved = self.saved.remove(client_id);
        let session_present = !clean && saved.is_some();
        let session = if clean {
            Session::default()
        } else {
            saved.unwrap_or_default()
        };
        if let Some(w) = will {
            self.wills.insert(client_id.to_string(), w);
        }
        let conn = self.conns.len();
        let slot = self.slab.insert(conn);
        self.conns.push(Conn {
            link,
            client_id: client_id.to_string(),
            clean,
            alive: true,
            slot,
            session,
            session_present,
            exp_acks: VecDeque::new(),
            exp_pubrels: VecDeque::new(),
            qos2_in: VecDeque::new(),
            close_reason: None,
            acks_accepted: 0,
            pubcomps_accepted: 0,
            aliases: HashMap::new(),
            posvecs: Vec::new(),
            unchecked: false,
        });
        {
            let k = self.conns.last_mut().unwrap();
            if k.session.uncertain {
                k.unchecked = true;
            }
            let start: Vec<usize> = k.session.subs.iter().map(|s| s.pos).collect();
            k.posvecs = vec![PosVec {
                pos: start,
                oblig: Vec::new(),
                tainted: false,
            }];
        }
        self.by_client.insert(client_id.to_string(), conn);
        // membership of shared groups is re-established only by subscribing;
        // a resumed session keeps its subscriptions (incl. shared ones)
        ConnectResult::Accepted {
            conn,
            slot,
            session_present,
            took_over,
        }
    }

    /// The broker removes connection `c` (any reason).
    pub fn close(&mut self, c: usize, reason: &'static str) {
        if !self.conns[c].alive {
            return;
        }
        let (client_id, clean, slot) = {
            let k = &mut self.conns[c];
            k.alive = false;
            k.close_reason = Some(reason);
            (k.client_id.clone(), k.clean, k.slot)
        };
        if self.slab.contains(slot) && self.slab[slot] == c {
            self.slab.remove(slot);
        }
        if self.by_client.get(&client_id) == Some(&c) {
            self.by_client.remove(&client_id);
        }
        for g in self.groups.values_mut() {
            let before = g.members.len();
            g.members.retain(|m| *m != c);
            if g.members.len() != before {
                g.member_left = true;
            }
        }
        self.groups.retain(|_, g| !g.members.is_empty());
        if !clean {
            // the connection keeps its copy (forwards still sitting in its
            // buffer are attributed against it); positions of the saved
            // copy are those of the only possible assignment, if there is one
            let mut session = self.conns[c].session.clone();
            let certain = self.conns[c].posvecs.len() == 1 && !self.conns[c].unchecked;
            if certain {
                for (si, s) in session.subs.iter_mut().enumerate() {
                    s.pos = self.conns[c].posvecs[0].pos[si];
                }
            }
            session.uncertain = !certain;
            session.subs.retain(|s| !s.gone && s.end.is_none());
            for s in session.subs.iter_mut() {
                // no retained replay on resume
                s.retained_t0 = None;
                s.restored = true;
            }
            self.saved.insert(client_id, session);
        } else {
            self.saved.remove(&client_id);
        }
    }

    fn append(&mut self, a: Accepted) -> usize {
        let idx = self.accepted.len();
        // retained bookkeeping
        let hist = self.retained.entry(a.topic.clone()).or_default();
        if a.payload.is_empty() {
            // only a RETAINED publish with an empty payload removes the retained
            // message; any other publish leaves "the most recent retained message"
            // of the topic what it was
            if a.retain {
                hist.push((idx, RetainedVal::Cleared));
            }
        } else if a.retain {
            hist.push((idx, RetainedVal::Set(a.payload.clone())));
        }
        for fl in self.flogs.iter_mut() {
            if spec_matches(&a.topic, &fl.filter) {
                fl.entries.push(idx as u32);
            }
        }
        self.accepted.push(a);
        idx
    }

    /// Does the broker accept this publish, or must it close the connection?
    fn publish_ok(topic: &[u8]) -> Result<String, &'static str> {
        match std::str::from_utf8(topic) {
            Ok(t) => Ok(t.to_string()),
            Err(_) => Err("non_utf8_topic"),
        }
    }

    /// Connection `c`'s packets were taken by the broker, in this order.
    pub fn accept(&mut self, c: usize, packets: &[SimPkt]) -> Vec<Effect> {
        let mut effects = Vec::new();
        let batch_start = self.accepted.len();
        for p in packets {
            if !self.conns[c].alive {
                break;
            }
            // MQTT 5 publish: resolve the alias (or close) and continue as a plain publish
            let resolved;
            let p = if let SimPkt::PublishV5 {
                topic,
                payload,
                qos,
                pkid,
                retain,
                alias,
                sub_ids,
            } = p
            {
                // QoS>0: the ack is registered before the publish is judged
                let mut close: Option<&'static str> = None;
                let mut t = topic.clone();
                if *sub_ids {
                    close = Some("publish_with_subscription_identifier");
                } else if let Some(a) = alias {
                    if *a == 0 || *a > 4096 {
                        close = Some("topic_alias_invalid");
                    } else if topic.is_empty() {
                        match self.conns[c].aliases.get(a) {
                            Some(known) => t = known.clone().into_bytes(),
                            None => close = Some("topic_alias_unknown"),
                        }
                    } else if let Ok(ts) = std::str::from_utf8(topic) {
                        self.conns[c].aliases.insert(*a, ts.to_string());
                    }
                }
                if let Some(r) = close {
                    if *qos == 2 {
                        // judged when released: model as an invalid recorded publish
                        self.conns[c].exp_acks.push_back(ExpAck::PubRec(*pkid));
                        self.conns[c].qos2_in.push_back(Accepted {
                            topic: String::from("\u{0}invalid"),
                            payload: payload.clone(),
                            retain: *retain,
                            from_conn: c,
                        });
                        continue;
                    }
                    if *qos == 1 {
                        self.conns[c].exp_acks.push_back(ExpAck::PubAck(*pkid));
                    }
                    self.close(c, r);
                    effects.push(Effect::Close(c, r));
                    break;
                }
                resolved = SimPkt::Publish {
                    topic: t,
                    payload: payload.clone(),
                    qos: *qos,
                    pkid: *pkid,
                    retain: *retain,
                };
                &resolved
            } else {
                p
            };
            match p {
                SimPkt::Publish {
                    topic,
                    payload,
                    qos,
                    pkid,
                    retain,
                } => {
                    let t = match Self::publish_ok(topic) {
                        Ok(t) => t,
                        Err(r) => {
                            // QoS 2: judged at release time
                            if *qos == 2 {
                                self.conns[c].exp_acks.push_back(ExpAck::PubRec(*pkid));
                                self.conns[c].qos2_in.push_back(Accepted {
                                    topic: String::from("\u{0}invalid"),
                                    payload: payload.clone(),
                                    retain: *retain,
                                    from_conn: c,
                                });
                                continue;
                            }
                            if *qos == 1 {
                                self.conns[c].exp_acks.push_back(ExpAck::PubAck(*pkid));
                            }
                            self.close(c, r);
                            effects.push(Effect::Close(c, r));
                            break;
                        }
                    };
                    let a = Accepted {
                        topic: t,
                        payload: payload.clone(),
                        retain: *retain,
                        from_conn: c,
                    };
                    match qos {
                        0 => {
                            self.append(a);
                        }
                        1 => {
                            self.conns[c].exp_acks.push_back(ExpAck::PubAck(*pkid));
                            self.append(a);
                        }
                        _ => {
                            self.conns[c].exp_acks.push_back(ExpAck::PubRec(*pkid));
                            self.conns[c].qos2_in.push_back(a);
                        }
                    }
                }
                SimPkt::PubRel(pkid) | SimPkt::PubRelProps(pkid) => {
                    let Some(a) = self.conns[c].qos2_in.pop_front() else {
                        self.close(c, "pubrel_without_publish");
                        effects.push(Effect::Close(c, "pubrel_without_publish"));
                        break;
                    };
                    self.conns[c].exp_acks.push_back(ExpAck::PubComp(*pkid));
                    if a.topic.starts_with('\u{0}') {
                        self.close(c, "non_utf8_topic");
                        effects.push(Effect::Close(c, "non_utf8_topic"));
                        break;
                    }
                    self.append(a);
                }
                SimPkt::Subscribe {
                    pkid,
                    filters,
                    sub_id,
                } => {
                    let mut codes = Vec::new();
                    let mut closed = false;
                    for (path, qos) in filters {
                        if path.starts_with('$') && !path.starts_with("$share") {
                            self.close(c, "dollar_filter");
                            effects.push(Effect::Close(c, "dollar_filter"));
                            closed = true;
                            break;
                        }
                        if *sub_id == Some(0) {
                            self.close(c, "subscription_id_zero");
                            effects.push(Effect::Close(c, "subscription_id_zero"));
                            closed = true;
                            break;
                        }
                        let (group, filter) = match extract_group(path) {
                            Some((g, f)) => (Some(g), f),
                            None => (None, path.clone()),
                        };
                        let flog = self.flog_for(&filter);
                        let pos = self.flogs[flog].entries.len();
                        let t0 = self.accepted.len();
                        if let Some(g) = &group {
                            let gm = self.groups.entry(g.clone()).or_insert_with(|| GroupModel {
                                flog,
                                start: pos,
                                ..Default::default()
                            });
                            if gm.flog != flog {
                                gm.mixed = true;
                            }
                            gm.members.push(c);
                        }
                        let subs = &mut self.conns[c].session.subs;
                        if let Some(s) = subs
                            .iter_mut()
                            .find(|s| s.path == *path && !s.gone && s.end.is_none())
                        {
                            if s.qos != *qos {
                                // remember the QoS the subscription was created with
                                if s.old_qos.is_none() {
                                    s.old_qos = Some(s.qos);
                                }
                                s.qos = *qos;
                                s.qos_hist.push((t0, *qos));
                            }
                            if sub_id.is_some() && s.sub_id != *sub_id {
                                s.sub_id = *sub_id;
                                s.sub_id_hist.push((t0, *sub_id));
                            }
                        } else {
                            subs.push(Sub {
                                path: path.clone(),
                                flog,
                                qos: *qos,
                                group: group.clone(),
                                pos,
                                end: None,
                                gone: false,
                                unsub_pkid: None,
                                sub_id: *sub_id,
                                old_qos: None,
                                retained_t0: if group.is_none() { Some(t0) } else { None },
                                retained_seen: Vec::new(),
                                first_live_seen: false,
                                unsub_after_same_batch_match: false,
                                qos_hist: vec![(t0, *qos)],
                                restored: false,
                                replay_closed: false,
                                sub_id_hist: vec![(t0, *sub_id)],
                            });
                            for pv in self.conns[c].posvecs.iter_mut() {
                                pv.pos.push(pos);
                            }
                        }
                        codes.push(*qos);
                    }
                    if closed {
                        break;
                    }
                    self.conns[c]
                        .exp_acks
                        .push_back(ExpAck::SubAck(*pkid, codes));
                }
                SimPkt::Unsubscribe { pkid, filters } => {
                    for path in filters {
                        let mut found = false;
                        for s in self.conns[c].session.subs.iter_mut() {
                            if s.path == *path && s.end.is_none() && !s.gone {
                                let end = self.flogs[s.flog].entries.len();
                                s.unsub_after_same_batch_match = self.flogs[s.flog]
                                    .entries
                                    .last()
                                    .map(|i| *i as usize >= batch_start)
                                    .unwrap_or(false);
                                s.end = Some(end);
                                s.unsub_pkid = Some(*pkid);
                                found = true;
                            }
                        }
                        if found {
                            if let Some((g, _)) = extract_group(path) {
                                if let Some(gm) = self.groups.get_mut(&g) {
                                    gm.members.retain(|x| *x != c);
                                    gm.member_left = true;
                                }
                                self.groups.retain(|_, g| !g.members.is_empty());
                            }
                        }
                    }
                    self.conns[c].exp_acks.push_back(ExpAck::UnsubAck(*pkid));
                }
                SimPkt::PubAck(_) => {
                    self.conns[c].acks_accepted += 1;
                }
                SimPkt::PubRec(pkid) => {
                    self.conns[c].acks_accepted += 1;
                    self.conns[c].exp_pubrels.push_back(*pkid);
                }
                SimPkt::PubComp(_) => {
                    self.conns[c].pubcomps_accepted += 1;
                }
                SimPkt::PingReq => {
                    self.conns[c].exp_acks.push_back(ExpAck::PingResp);
                }
                SimPkt::Disconnect => {
                    let cid = self.conns[c].client_id.clone();
                    self.wills.remove(&cid);
                    self.close(c, "disconnect_packet");
                    effects.push(Effect::Close(c, "disconnect_packet"));
                    break;
                }
                SimPkt::Ignored(_) => {}
                SimPkt::BadAck(..) => {
                    self.close(c, "unsolicited_ack");
                    effects.push(Effect::Close(c, "unsolicited_ack"));
                    break;
                }
                SimPkt::PublishV5 { .. } => unreachable!("resolved above"),
            }
        }
        effects
    }

    /// The broker handles a PublishWill event for this client id.
    pub fn publish_will(&mut self, client_id: &str) -> Option<usize> {
        let w = self.wills.remove(client_id)?;
        let idx = self.append(Accepted {
            topic: w.topic.clone(),
            payload: w.payload.clone(),
            retain: w.retain,
            from_conn: usize::MAX,
        });
        self.wills_fired.push((client_id.to_string(), idx));
        Some(idx)
    }
}
