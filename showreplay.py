#!/usr/bin/env python3
import json,sys
d=json.load(open(sys.argv[1]))
print(d['class'],'|', d['message']); print(d['config'][:900]); print('choices',len(d['choices']))
for l in d['trace'][1:]:
    print(l)
