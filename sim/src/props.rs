//! Property registry: which engine decides which property, with budgets and
//! the fixed descriptive parts of the evidence.

use crate::core::{RunFn, Tier};
use crate::engines;

pub struct PropSpec {
    pub id: &'static str,
    pub engine: &'static str,
    pub level: &'static str,
    pub runs_quick: u64,
    pub runs_thorough: u64,
    pub rule: &'static str,
    pub state_measure: &'static str,
    pub real: &'static [&'static str],
    pub stubbed: &'static [&'static str],
    pub assumptions: &'static [&'static str],
    pub expected_probes: &'static [&'static str],
}

const ROUTER_REAL: &[&str] = &["rumqttd::Router (run_inner, events, consume, handle_device_payload, handle_new_connection, handle_disconnection, forward_device_data, append_to_commitlog)", "rumqttd router/{scheduler,logs,iobufs,waiters,graveyard,shared_subs}", "rumqttd segments::CommitLog", "rumqttd::local::{LinkBuilder,LinkTx,LinkRx} buffer and channel primitives", "flume channels, parking_lot mutexes"];
const ROUTER_STUB: &[&str] = &["per-connection task remote()/RemoteLink::start replaced by a link actor performing the same buffer/channel operations", "MQTT codecs and sockets (not involved)", "clients: protocol-obeying models"];
const ROUTER_ASSUME: &[&str] = &[
            "single-threaded interleaving at buffer/channel granularity is equivalent to the threaded broker (DESIGN.md 1.1)",
            "release semantics: debug assertions off, overflow checks off",
            "the reference broker model (spec.rs) and its matcher are trusted",
        ];

const CLIENT_REAL: &[&str] = &["rumqttc::AsyncClient (try_publish / try_subscribe / try_unsubscribe / try_ack)", "rumqttc::EventLoop::poll, select, clean, next_request, connect, mqtt_connect (v4) and rumqttc::v5::EventLoop (v5)", "rumqttc::MqttState and rumqttc::v5::MqttState (all handlers, clean, next_pkid, check_collision)", "rumqttc::framed::Network / v5 Network (read, readb, write, flush) over tokio_util::codec::Framed", "rumqttc v4 and v5 codecs (also used by the script to encode / decode)", "flume request channel", "tokio current-thread runtime, paused clock (timers: keep-alive, connection timeout, flush timeout, pending throttle)"];
const CLIENT_STUB: &[&str] = &["TCP: SimNet in-memory byte pipes installed through rumqttc::verif::set_connector (seeded read/write chunking, cut after k bytes in either direction, half-open, refused writes, orderly close)", "the broker: a scripted actor with a seeded policy (CONNACK session_present / receive_max / topic_alias_max, ack order and pacing, duplicated / unsolicited / out-of-range acks, v5 reason codes, inbound PUBLISH / PUBREL, PINGRESP prompt / delayed / never, server DISCONNECT)", "the user: a seeded actor issuing requests through the real AsyncClient"];
const CLIENT_ASSUME: &[&str] = &["the poll() future is never cancelled: when its virtual-time budget elapses it is kept and resumed", "poll() is called continuously (a new poll starts as soon as the previous one returned); virtual time advances only while a poll is pending", "the script reads everything the client wrote before each of its own actions, so its view of the wire is exact", "release semantics: debug assertions off, overflow checks off", "select! branch order comes from the runtime RNG, seeded per run from the choice sequence; oracles do not depend on it"];

const SPECS: &[PropSpec] = &[
    PropSpec {
        id: "C01",
        engine: "routersim",
        level: "exploration",
        runs_quick: 150000,
        runs_thorough: 3000000,
        rule: "one run = seeded swarm configuration (1-5 clients, topic/filter pools, QoS mixes, router segment/outgoing limits, ack pacing) + seeded interleaving of client actions, link steps and real run_inner calls with link steps injected at yield points; distinct = trace hash; non-trivial = at least one forward was delivered and at least two connections were registered",
        state_measure: "per router step: hash over connections of (tracker status, scheduled?, #tracked, #parked, inflight bucket, outgoing-buffer bucket, incoming bucket) + groups + graveyard size + channel bucket",
        real: ROUTER_REAL,
        stubbed: ROUTER_STUB,
        assumptions: ROUTER_ASSUME,
        expected_probes: &["yield_point_step", "unschedule_seen", "same_batch_pub_sub", "burst", "mid_run_quiescence"],
    },
    PropSpec {
        id: "C06",
        engine: "routersim",
        level: "exploration",
        runs_quick: 150000,
        runs_thorough: 3000000,
        rule: "as C01 plus PINGREQ, multi-filter SUBSCRIBE/UNSUBSCRIBE, UNSUBSCRIBE of unknown filters; every drained DeviceAck is compared with a per-connection ledger in request order",
        state_measure: "per router step: hash over connections of (tracker status, scheduled?, #tracked, #parked, inflight bucket, outgoing-buffer bucket, incoming bucket) + groups + graveyard size + channel bucket",
        real: ROUTER_REAL,
        stubbed: ROUTER_STUB,
        assumptions: ROUTER_ASSUME,
        expected_probes: &["yield_point_step", "batch_10_plus"],
    },
    PropSpec {
        id: "C09",
        engine: "routersim",
        level: "exploration",
        runs_quick: 100000,
        runs_thorough: 2000000,
        rule: "backlogs and bursts (up to 199 per batch) towards 1-3 subscribers at QoS 0-2 with ack pacing eager/lazy/burst/withheld; window invariants on every forward, completeness at quiescence with no stimulus after the last ack",
        state_measure: "per router step: hash over connections of (tracker status, scheduled?, #tracked, #parked, inflight bucket, outgoing-buffer bucket, incoming bucket) + groups + graveyard size + channel bucket",
        real: ROUTER_REAL,
        stubbed: ROUTER_STUB,
        assumptions: ROUTER_ASSUME,
        expected_probes: &["window_full_100", "unschedule_seen", "big_burst"],
    },
    PropSpec {
        id: "C03",
        engine: "routersim",
        level: "exploration",
        runs_quick: 150000,
        runs_thorough: 3000000,
        rule: "rogue and well-behaved clients, stale events, takeover, persistent sessions, shared groups; no router step may unwind or return an error, probe client must be served afterwards",
        state_measure: "per router step: hash over connections of (tracker status, scheduled?, #tracked, #parked, inflight bucket, outgoing-buffer bucket, incoming bucket) + groups + graveyard size + channel bucket",
        real: ROUTER_REAL,
        stubbed: ROUTER_STUB,
        assumptions: ROUTER_ASSUME,
        expected_probes: &["takeover", "stale_disconnect_on_reused_slot"],
    },
    PropSpec {
        id: "C15",
        engine: "routersim",
        level: "exploration",
        runs_quick: 150000,
        runs_thorough: 3000000,
        rule: "histories of retained / non-retained / empty-payload publishes (and retained wills) on 2-6 topics interleaved with new, repeated and shared subscriptions at QoS 0-2; every forward flagged retain=1 must be the replay owed to a new non-shared subscription with a value the topic's retained message held since that subscription was accepted; completeness of the replay at quiescence when it fits the window; non-trivial as C01",
        state_measure: "per router step: hash over connections of (tracker status, scheduled?, #tracked, #parked, inflight bucket, outgoing-buffer bucket, incoming bucket) + groups + graveyard size + channel bucket",
        real: ROUTER_REAL,
        stubbed: ROUTER_STUB,
        assumptions: ROUTER_ASSUME,
        expected_probes: &["retained_replay", "retained_replay_attributed"],
    },
    PropSpec {
        id: "C16",
        engine: "netsim+routersim",
        level: "fault_enumeration",
        runs_quick: 100000,
        runs_thorough: 2000000,
        rule: "two engines alternate (1 run in 8 is netsim): NETSIM - one seeded session of a client with (or without) a will on the real per-connection task over an in-memory stream (CONNECT, 0-3 further packets, then DISCONNECT / a protocol error / nothing), delivered up to EVERY byte offset and then cut, and at every frame boundary (and every 7th offset) left silent until the broker keep-alive expires; a watcher subscribed to the will topic counts will messages: exactly one iff CONNECT was delivered completely, a will was registered and no complete DISCONNECT was delivered; retained wills are then checked at a later subscriber; crash_points_enumerated counts these re-executions. ROUTERSIM - router half under the seeded scheduler: clients with wills ending by DISCONNECT packet or link failure at seeded points, PublishWill events as remote() sends them; the will is an accepted message of the reference model iff no DISCONNECT was processed. non-trivial: netsim = the crash point was judged; routersim = as C01",
        state_measure: "per router step: hash over connections of (tracker status, scheduled?, #tracked, #parked, inflight bucket, outgoing-buffer bucket, incoming bucket) + groups + graveyard size + channel bucket",
        real: ROUTER_REAL,
        stubbed: ROUTER_STUB,
        assumptions: ROUTER_ASSUME,
        expected_probes: &["will_fired", "will_not_expected", "cut_inside_session", "keepalive_expiry_waited"],
    },
    PropSpec {
        id: "C17",
        engine: "routersim",
        level: "exploration",
        runs_quick: 150000,
        runs_thorough: 3000000,
        rule: "2-4 members with shared subscriptions (one group per filter), outsiders with plain subscriptions, publishes singly and in bursts, members leaving / disconnecting, three strategies; ledger per (group, message): at most one member, no repeat (except redelivery after an unacknowledged recipient left), per-member order, completeness at quiescence incl. forwards left in dead members' buffers; non-trivial as C01",
        state_measure: "per router step: hash over connections of (tracker status, scheduled?, #tracked, #parked, inflight bucket, outgoing-buffer bucket, incoming bucket) + groups + graveyard size + channel bucket",
        real: ROUTER_REAL,
        stubbed: ROUTER_STUB,
        assumptions: ROUTER_ASSUME,
        expected_probes: &["shared_forward_attributed"],
    },
    PropSpec {
        id: "C14",
        engine: "routersim",
        level: "exploration",
        runs_quick: 150000,
        runs_thorough: 3000000,
        rule: "a well-behaved publisher/subscriber pair plus 1-4 rogue clients (certainly unsolicited / out-of-order acks, $-filters, subscription id 0, non-UTF-8 topics, topic-alias abuse, packets a broker ignores, stalled consumption, abrupt drops, reconnects) and the late events a finished link can still emit (DeviceData, Ready, Disconnect, PublishWill) in every order relative to connections that reuse its slot; for every protocol-obeying client the C01, C06 and C09 oracles must hold and its connection must never be closed; non-trivial as C01",
        state_measure: "per router step: hash over connections of (tracker status, scheduled?, #tracked, #parked, inflight bucket, outgoing-buffer bucket, incoming bucket) + groups + graveyard size + channel bucket",
        real: ROUTER_REAL,
        stubbed: ROUTER_STUB,
        assumptions: ROUTER_ASSUME,
        expected_probes: &["stale_disconnect_on_reused_slot", "tick_event"],
    },
    PropSpec {
        id: "C08",
        engine: "routersim",
        level: "fault_enumeration",
        runs_quick: 800,
        runs_thorough: 20000,
        rule: "one evaluation = one seeded history (persistent subscriber with 1-3 non-overlapping filters at QoS 0-2, 1-3 publishers, ack lag, 30-150 scheduler steps) re-executed for EVERY step index x 4 ways of ending the subscriber's connection (DISCONNECT packet, link failure, router-initiated close after a protocol error, takeover), followed by up to 3 reconnect cycles with seeded clean flags; crash_points_enumerated counts the re-executions; distinct = hash over all re-executions; non-trivial = forwards were delivered in some re-execution",
        state_measure: "per router step: hash over connections of (tracker status, scheduled?, #tracked, #parked, inflight bucket, outgoing-buffer bucket, incoming bucket) + groups + graveyard size + channel bucket",
        real: ROUTER_REAL,
        stubbed: ROUTER_STUB,
        assumptions: ROUTER_ASSUME,
        expected_probes: &["session_saved_with_unacked_forwards", "forward_judged_at_close"],
    },
    PropSpec {
        id: "C05",
        engine: "streamsim",
        level: "exploration",
        runs_quick: 2000000,
        runs_thorough: 40000000,
        rule: "one run = one decoder (rumqttc v4 / rumqttc v5 / rumqttd V4 / rumqttd V5), one max-packet-size from {2,10,100,1024,10240,268435455} (rumqttc v5 also None), one byte stream (1-8 valid frames from the matching-version encoders; the same with 1-3 mutations: bit flip, byte overwrite, remaining-length edit, truncation, type-nibble rewrite, slice duplicate/delete/insert; 0-40 random bytes; fixed-header boundary case: any first byte x remaining-length encodings {0,1,2,127,128,16383,16384,2097151,2097152,268435455, ff ff ff ff 01} with short / exact / exact-1 / exact+k body), one EOF offset (end or seeded prefix) and one chunking (whole, byte-by-byte, random cuts, cuts inside the fixed header / length bytes / one byte before frame end) with seeded Pending injections; distinct = trace hash; non-trivial = at least 2 chunks and the one-shot reference produced a packet or a malformed-packet error",
        state_measure: "(decoder, reference terminal condition clean/need-more/malformed, packets decoded (cap 15), chunks (cap 255)) per run",
        real: &["rumqttc::mqttbytes::v4::{Packet::read, Codec} behind tokio_util::codec::Framed", "rumqttc::v5::mqttbytes::v5::{Packet::read, Codec} behind tokio_util::codec::Framed", "rumqttd::protocol::v4::V4 and v5::V5 (Protocol::read_mut)", "rumqttd::link::network::Network::{read, read_bytes, readv}", "the four encoders (Packet::write, Protocol::write) as sources of valid frames", "tokio current-thread runtime (paused clock)"],
        stubbed: &["the socket: in-memory AsyncRead/AsyncWrite delivering the stream in seeded chunks with seeded Poll::Pending, then EOF; writes are discarded"],
        assumptions: &[
            "the reference packet sequence is the decoder's own one-shot entry point applied to the whole delivered prefix; each of its calls is checked against an independent fixed-header parser (1 type byte + variable byte integer of at most 4 bytes)",
            "the configured maximum is compared with the declared remaining length (the statement's wording), not with the whole frame length",
            "packet equality is the decoders' own PartialEq; error values are compared only as error / no error",
            "release semantics: debug assertions off, overflow checks off",
        ],
        expected_probes: &["dec_rumqttc_v4", "dec_rumqttc_v5", "dec_rumqttd_v4", "dec_rumqttd_v5", "valid_stream", "mutated_stream", "random_stream", "boundary_header_stream", "one_byte_chunking", "structural_chunking", "eof_mid_frame", "eof_before_stream_end", "ref_malformed", "ref_need_more", "ref_clean", "ref_packets", "oversize_frame_seen", "wrap_eof", "wrap_error", "wrap_packets", "pending_injected", "decoded_connect", "decoded_connack", "decoded_publish", "decoded_puback", "decoded_pubrec", "decoded_pubrel", "decoded_pubcomp", "decoded_subscribe", "decoded_suback", "decoded_unsubscribe", "decoded_unsuback", "decoded_pingreq", "decoded_pingresp", "decoded_disconnect"],
    },
    PropSpec {
        id: "C19",
        engine: "netsim",
        level: "exploration",
        runs_quick: 300000,
        runs_thorough: 4000000,
        rule: "one run = a v4 or v5 listener with one of four authentication configurations (none / static / external callback / both) and max_connections 2-4, an admitted witness subscribed to probe/#, then 1-6 connection attempts: first packet CONNECT / CONNECT of the other protocol version / non-CONNECT / garbage / nothing, client ids incl. + $ # / and empty, clean or not, keep-alive 0, logins absent / right / wrong, takeovers and departures; each followed by SUBSCRIBE + PUBLISH whose effect the witness observes; a reference admission predicate decides (left open where static and external credentials disagree); router snapshot invariants (distinct client ids, <= max_connections) after each attempt; non-trivial = at least 2 attempts",
        state_measure: "not measured for this engine (distinct traces only)",
        real: &["rumqttd server::broker::remote() (per-connection task) through Server::verif_accept", "rumqttd link::remote::{mqtt_connect, handle_auth, RemoteLink::new/start}", "rumqttd link::network::Network<V4|V5> and both broker codecs", "rumqttd LinkBuilder::build (block point steps the router)", "rumqttd::Router (whole routing core)", "rumqttc codecs (client side encode/decode)", "tokio current-thread runtime, paused clock, seeded RNG"],
        stubbed: &["TCP accept loop Server::start (in-memory duplex handed to verif_accept)", "router OS thread (task calling the real run_inner then sleeping 0-3 virtual ms)", "clients: scripted byte writers/readers", "TLS, websocket, console, bridge, metrics not run"],
        assumptions: &["one thread and a paused, auto-advancing clock are a faithful stand-in for the listener runtime + router thread (DESIGN.md 5.2)", "release semantics"],
        expected_probes: &["attempt_admitted", "attempt_refused", "takeover", "first_packet_not_connect", "no_first_packet"],
    },
    PropSpec {
        id: "C20",
        engine: "netsim",
        level: "exploration",
        runs_quick: 400000,
        runs_thorough: 6000000,
        rule: "one run = publisher and subscriber on a seeded pair of protocol versions (all four pairs), subscriber QoS 0-2, optional subscription identifier and topic-alias-maximum (v5), literal or wildcard filter, 1-8 publishes at QoS 0-2 with a seeded subset of the 7 MQTT 5 publish properties (2^7 subsets) incl. publisher topic aliases, plus PINGREQ / SUBSCRIBE / UNSUBSCRIBE to force every kind of reply; the subscriber decodes the broker's bytes with the rumqttc codec of its version; non-trivial = all messages compared",
        state_measure: "not measured for this engine (distinct traces only)",
        real: &["rumqttd server::broker::remote() (per-connection task) through Server::verif_accept", "rumqttd link::remote::{mqtt_connect, handle_auth, RemoteLink::new/start}", "rumqttd link::network::Network<V4|V5> and both broker codecs", "rumqttd LinkBuilder::build (block point steps the router)", "rumqttd::Router (whole routing core)", "rumqttc codecs (client side encode/decode)", "tokio current-thread runtime, paused clock, seeded RNG"],
        stubbed: &["TCP accept loop Server::start (in-memory duplex handed to verif_accept)", "router OS thread (task calling the real run_inner then sleeping 0-3 virtual ms)", "clients: scripted byte writers/readers", "TLS, websocket, console, bridge, metrics not run"],
        assumptions: &["one thread and a paused, auto-advancing clock are a faithful stand-in for the listener runtime + router thread (DESIGN.md 5.2)", "release semantics"],
        expected_probes: &["pair_v4_to_v4", "pair_v4_to_v5", "pair_v5_to_v4", "pair_v5_to_v5"],
    },
    PropSpec {
        id: "C02",
        engine: "clientsim",
        level: "fault_enumeration",
        runs_quick: 500,
        runs_thorough: 3000,
        rule: "one evaluation = one seeded history (v4 or v5 client, inflight limit from {1,2,3,5,10,100}, channel capacity {1,3,10}, 1-30 user requests QoS0-2 / subscribe / unsubscribe with unique payloads, broker policy: ack order in-order / reversed / random, lazy or eager, 0-20% acks never sent, occasional duplicate / unknown-id / out-of-range acks, v5 failure reason codes and receive_max) executed once fault-free and then re-executed for EVERY byte offset k of the client->broker stream and EVERY offset of the broker->client stream as read by the client (cut: both directions fail after k bytes), each followed by reconnects answered with session_present 0/1 and, with 30%, up to two further seeded cuts; crash_points_enumerated counts the re-executions; after every poll() return U (accepted QoS>0 publishes whose final ack the script has not sent, session not lost) must be contained in state.clone().clean() + state.collision + pending with unchanged topic / QoS / wire id, and after CONNACK(session_present=1) everything held must be on the new wire within 5 simulated seconds of continuous polling against a prompt in-order broker; distinct = hash over all re-executions; non-trivial = the held-invariant was evaluated on at least one live message",
        state_measure: "after every poll() return: (inflight, #pending cap 255, collision parked?, #queued events cap 127, #connections, Ok/Err, #acks owed by the script)",
        real: CLIENT_REAL,
        stubbed: CLIENT_STUB,
        assumptions: CLIENT_ASSUME,
        expected_probes: &["client_v4", "client_v5", "cut_mid_packet", "session_resumed", "session_not_resumed", "replay_complete", "replay_interrupted", "collision_created", "collision_resolved_by_puback", "collision_resolved_by_pubcomp"],
    },
    PropSpec {
        id: "C11",
        engine: "clientsim",
        level: "fault_enumeration",
        runs_quick: 10000,
        runs_thorough: 60000,
        rule: "one evaluation = one seeded history (half of them: v4, QoS0/1 only, in-order acks; limit from {3,4,5,10} so that ids wrap, channel capacity {1,5,10}, 3-30 requests) re-executed for EVERY cut offset of both byte streams as in C02, with session_present 1/0 on reconnect and, with 40%, up to two further cuts (failures during the replay); on a resumed session every carried-over registered publish must reappear with its original id before any request issued after the failure, and (v4, no QoS2, broker acked in order) in first-transmission order; without session no carried-over payload may appear, pending must be empty at the first Ok poll and a fresh QoS1 request must reach the wire within 1 simulated second; crash_points_enumerated counts the re-executions; non-trivial = a resumed session retransmitted all carried publishes, or a no-session reconnect was checked",
        state_measure: "after every poll() return: (inflight, #pending cap 255, collision parked?, #queued events cap 127, #connections, Ok/Err, #acks owed by the script)",
        real: CLIENT_REAL,
        stubbed: CLIENT_STUB,
        assumptions: CLIENT_ASSUME,
        expected_probes: &["client_v4", "client_v5", "session_resumed", "session_not_resumed", "carried_registered_publishes", "carried_all_retransmitted", "failure_during_replay", "fresh_request_sent", "cut_mid_packet"],
    },
    PropSpec {
        id: "C07",
        engine: "clientsim",
        level: "exploration",
        runs_quick: 30000,
        runs_thorough: 500000,
        rule: "one run = one seeded history without transport faults: v4 or v5 client, limit from {1,2,3,5,10,100,65535} (v5: receive_max below the limit in half of the CONNACKs of some runs), 1-200 requests, ack order in-order / reversed / random with lazy pacing, 0-15% acks withheld, bad acks, v5 failure reason codes, broker-side closes with session_present 1/0 on reconnect; wire: id range, id reuse while the final ack is owed, new user request while the broker owes >= limit final acks; state after every poll: inflight() <= limit, inflight() >= number of publishes/releases certainly unanswered, parked collision implies its id is held, no new user request while the same publish stays parked; end phase: broker answers everything promptly and every request still in the channel must reach the wire within 1 simulated second; distinct = trace hash; non-trivial = window full or a collision was observed",
        state_measure: "after every poll() return: (inflight, #pending cap 255, collision parked?, #queued events cap 127, #connections, Ok/Err, #acks owed by the script)",
        real: CLIENT_REAL,
        stubbed: CLIENT_STUB,
        assumptions: CLIENT_ASSUME,
        expected_probes: &["client_v4", "client_v5", "window_full", "collision_created", "collision_resolved_by_puback", "pkid_wrap", "drain_complete", "receive_max_in_connack"],
    },
    PropSpec {
        id: "C10",
        engine: "clientsim",
        level: "exploration",
        runs_quick: 100000,
        runs_thorough: 1500000,
        rule: "one run = one seeded history on a fault-free transport: v4 or v5 client, manual_acks on in 1/3, broker writes batches of 1-25 packets at once (PUBLISH QoS0-2 with ids incl. 101 / 1000 / 65535, v5 topic aliases known / unknown, PUBREL of known and unknown ids, PINGRESP, SUBACK, UNSUBACK, duplicated / unknown-id / out-of-range PUBACK / PUBREC / PUBCOMP, v5 reason codes, server DISCONNECT) interleaved with 0-25 user requests and manual acks; every event returned by poll() is matched against the packets the script wrote on that connection (events queued at an error keep their connection) and against the packets the client wrote; panics of the client are violations; distinct = trace hash; non-trivial = at least one Incoming event was matched",
        state_measure: "after every poll() return: (inflight, #pending cap 255, collision parked?, #queued events cap 127, #connections, Ok/Err, #acks owed by the script)",
        real: CLIENT_REAL,
        stubbed: CLIENT_STUB,
        assumptions: CLIENT_ASSUME,
        expected_probes: &["client_v4", "client_v5", "inbound_batch_10_plus", "inbound_flow_answered", "unsolicited_ack_sent", "unsolicited_ack_reported", "announcement_matched", "inbound_pubrel_known", "inbound_pubrel_unknown", "manual_ack_issued"],
    },
    PropSpec {
        id: "C18",
        engine: "clientsim",
        level: "exploration",
        runs_quick: 1000000,
        runs_thorough: 15000000,
        rule: "one run = one keep-alive scenario on virtual time with continuous polling: keep-alive K from {1 (v4), 5, 60} s, connection_timeout from {1,2,5} s, traffic none / user publishes / inbound publishes / both; modes: every PINGREQ answered after a delay in [0, K-5 ms] for 20 intervals (no keep-alive error, consecutive PINGREQs <= K apart); broker silent from a seeded instant T in [0, 5K] (plain / half-open / also refusing the client's writes): poll() must fail by T+2K (+ flush timeout when writes are refused); K=0 (v4): no PINGREQ in 600 s; CONNACK never sent / 1 byte of it / transport connect never completes: timeout error at connection_timeout +- 2 ms; distinct = trace hash; non-trivial = 19+ pings seen (answer mode), failure detected (silent modes), 600 s covered (K=0), timeout observed (handshake modes)",
        state_measure: "after every poll() return: (inflight, #pending cap 255, collision parked?, #queued events cap 127, #connections, Ok/Err, #acks owed by the script)",
        real: CLIENT_REAL,
        stubbed: CLIENT_STUB,
        assumptions: CLIENT_ASSUME,
        expected_probes: &["client_v4", "client_v5", "ping_sent", "keepalive_error", "silent_broker_detected", "twenty_intervals_without_alarm", "ten_minutes_without_ping", "connect_timeout_on_time"],
    },
    PropSpec {
    id: "C13",
    engine: "logsim",
    level: "exploration",
    runs_quick: 2000000,
    runs_thorough: 40000000,
    rule: "one run = one seeded history of appends (four size classes, bursts) interleaved with reads by 1-4 independent cursor holders using cursors the log issued (tail, entry tag, continuation; fresh and stale) and fabricated cursors, on a seeded segment size/count; distinct = distinct trace hash; non-trivial = at least one eviction happened AND at least one read used a stale cursor or crossed a segment boundary",
    state_measure: "(segments in memory, tail-head, entries mod 256) after every operation",
    real: &["rumqttd::segments::CommitLog", "rumqttd::segments::segment::Segment"],
    stubbed: &[],
    assumptions: &[
        "which entries are retained is observed through append()'s return value and _head_and_tail(), not through readv",
        "single-threaded: the commit log is owned by the router thread in production",
    ],
    expected_probes: &["eviction", "stale_cursor_read", "read_across_segments", "fabricated_cursor_read", "segment_rotation"],
}];

pub fn all() -> &'static [PropSpec] {
    SPECS
}

pub fn find(id: &str) -> Option<&'static PropSpec> {
    SPECS.iter().find(|p| p.id == id)
}

pub fn runner(id: &'static str, tier: Tier) -> Box<RunFn> {
    match id {
        "C05" => Box::new(move |ch, rep| {
            // one run in 64 (decided by the run seed, not by a choice, so that the
            // byte-stream runs keep their choice sequences) takes the oversize
            // clause through the whole rumqttc client: the incoming limit lives
            // in `Network`, which only the event loop reaches
            if ch.seed % 64 == 0 {
                engines::clientsim::run(engines::clientsim::P::C05, tier, ch, rep)
            } else {
                engines::streamsim::run(tier, ch, rep)
            }
        }),
        "C02" => Box::new(move |ch, rep| engines::clientsim::run(engines::clientsim::P::C02, tier, ch, rep)),
        "C07" => Box::new(move |ch, rep| engines::clientsim::run(engines::clientsim::P::C07, tier, ch, rep)),
        "C10" => Box::new(move |ch, rep| engines::clientsim::run(engines::clientsim::P::C10, tier, ch, rep)),
        "C11" => Box::new(move |ch, rep| engines::clientsim::run(engines::clientsim::P::C11, tier, ch, rep)),
        "C18" => Box::new(move |ch, rep| engines::clientsim::run(engines::clientsim::P::C18, tier, ch, rep)),
        "C13" => Box::new(move |ch, rep| engines::logsim::run(tier, ch, rep)),
        "C01" => Box::new(move |ch, rep| engines::routersim::run(engines::routersim::P::C01, tier, ch, rep)),
        "C03" => Box::new(move |ch, rep| engines::routersim::run(engines::routersim::P::C03, tier, ch, rep)),
        "C06" => Box::new(move |ch, rep| engines::routersim::run(engines::routersim::P::C06, tier, ch, rep)),
        "C09" => Box::new(move |ch, rep| engines::routersim::run(engines::routersim::P::C09, tier, ch, rep)),
        "C08" => Box::new(move |ch, rep| engines::routersim::run(engines::routersim::P::C08, tier, ch, rep)),
        "C14" => Box::new(move |ch, rep| engines::routersim::run(engines::routersim::P::C14, tier, ch, rep)),
        "C15" => Box::new(move |ch, rep| engines::routersim::run(engines::routersim::P::C15, tier, ch, rep)),
        "C16" => Box::new(move |ch, rep| {
            // two engines serve C16: the router half under the seeded scheduler
            // (routersim) and the full stack with every cut offset (netsim)
            if ch.pick(8) < 7 {
                engines::routersim::run(engines::routersim::P::C16, tier, ch, rep)
            } else {
                engines::netsim::run(engines::netsim::NP::C16, tier, ch, rep)
            }
        }),
        "C19" => Box::new(move |ch, rep| engines::netsim::run(engines::netsim::NP::C19, tier, ch, rep)),
        "C20" => Box::new(move |ch, rep| engines::netsim::run(engines::netsim::NP::C20, tier, ch, rep)),
        "C17" => Box::new(move |ch, rep| engines::routersim::run(engines::routersim::P::C17, tier, ch, rep)),
        _ => panic!("no engine for {id}"),
    }
}
