//! streamsim: the four MQTT decoders on arbitrary bytes under arbitrary
//! chunking (C05).
//!
//! Real code: `rumqttc::mqttbytes::v4::{Packet::read, Codec}` and
//! `rumqttc::v5::mqttbytes::v5::{Packet::read, Codec}` behind
//! `tokio_util::codec::Framed`; `rumqttd::protocol::{v4::V4, v5::V5}`
//! (`Protocol::read_mut`) behind the real `rumqttd::link::network::Network`
//! (`read` + `readv`). The only stub is the socket: an in-memory
//! `AsyncRead`/`AsyncWrite` that delivers the bytes in seeded chunks, with
//! seeded `Poll::Pending`s, then EOF.
//!
//! Oracle: the statement of C05, nothing else.
//!   reference = the decoder's own one-shot entry point applied repeatedly to
//!   the whole delivered prefix. On every call the fixed header is parsed
//!   independently here (`parse_hdr`) and the call is checked against it:
//!   no panic; on success exactly `1 + len_len + remaining_len` bytes
//!   consumed; never a packet when `remaining_len > max`; "need more" only
//!   while the header or the declared frame is incomplete.
//!   Then the same bytes go through the decoder's stream wrapper with a seeded
//!   chunking and the packet sequence / error-or-not must be the same.

use crate::choices::Choices;
use crate::core::{guarded, Outcome, RunReport, Tier, Violation};
use crate::tr;
use bytes::{Bytes, BytesMut};
use std::collections::VecDeque;
use std::fmt::Debug;
use std::pin::Pin;
use std::task::{Context, Poll};
use tokio::io::{AsyncRead, AsyncWrite, ReadBuf};

mod c4 {
    pub use rumqttc::mqttbytes::v4::*;
    pub use rumqttc::mqttbytes::{Error, Protocol, QoS};
}
mod c5 {
    pub use rumqttc::v5::mqttbytes::v5::*;
    pub use rumqttc::v5::mqttbytes::{Error, QoS};
}
mod d {
    pub use rumqttd::protocol::v4::V4;
    pub use rumqttd::protocol::v5::V5;
    pub use rumqttd::protocol::*;
    pub use rumqttd::verif::{Network, NetworkError};
}

/// Probe per packet type (first-byte nibble) that some decoder turned into a packet.
const TYPE_PROBE: [&str; 16] = [
    "decoded_type_0", "decoded_connect", "decoded_connack", "decoded_publish", "decoded_puback",
    "decoded_pubrec", "decoded_pubrel", "decoded_pubcomp", "decoded_subscribe", "decoded_suback",
    "decoded_unsubscribe", "decoded_unsuback", "decoded_pingreq", "decoded_pingresp",
    "decoded_disconnect", "decoded_type_15",
];

const MAXES: [usize; 6] = [2, 10, 100, 1024, 10 * 1024, 268_435_455];

fn viol(class: &str, message: String) -> Outcome {
    Outcome::Violation(Violation {
        property: "C05",
        class: class.to_string(),
        message,
    })
}

// ---------------------------------------------------------------------------
// Independent fixed-header parser (MQTT 3.1.1 / 5.0 section 2.2: one byte of
// type+flags, then a variable byte integer of at most four bytes).
// ---------------------------------------------------------------------------

#[derive(Debug, Clone, Copy, PartialEq, Eq)]
enum Hdr {
    /// Fewer bytes than the fixed header needs.
    Incomplete,
    /// Four length bytes, all with the continuation bit.
    Malformed,
    Complete { len_len: usize, rem: usize },
}

fn parse_hdr(b: &[u8]) -> Hdr {
    if b.is_empty() {
        return Hdr::Incomplete;
    }
    let mut rem = 0usize;
    for i in 0..4 {
        match b.get(1 + i) {
            None => return Hdr::Incomplete,
            Some(&x) => {
                rem |= ((x & 0x7f) as usize) << (7 * i);
                if x & 0x80 == 0 {
                    return Hdr::Complete { len_len: i + 1, rem };
                }
            }
        }
    }
    Hdr::Malformed
}

/// Frames as declared by the headers, walking from offset 0 while they are
/// complete: (start, len_len, rem, fully_present).
fn walk_frames(b: &[u8]) -> Vec<(usize, usize, usize, bool)> {
    let mut out = Vec::new();
    let mut off = 0usize;
    while off < b.len() && out.len() < 64 {
        match parse_hdr(&b[off..]) {
            Hdr::Complete { len_len, rem } => {
                let flen = 1 + len_len + rem;
                let present = b.len() - off >= flen;
                out.push((off, len_len, rem, present));
                if !present {
                    break;
                }
                off += flen;
            }
            _ => break,
        }
    }
    out
}

fn hex(b: &[u8], limit: usize) -> String {
    use std::fmt::Write;
    let mut s = String::with_capacity(2 * b.len().min(limit) + 16);
    for x in b.iter().take(limit) {
        let _ = write!(s, "{x:02x}");
    }
    if b.len() > limit {
        let _ = write!(s, "..(+{} bytes)", b.len() - limit);
    }
    s
}

fn trunc(mut s: String, n: usize) -> String {
    if s.len() > n {
        let mut cut = n;
        while cut > 0 && !s.is_char_boundary(cut) {
            cut -= 1;
        }
        s.truncate(cut);
        s.push_str("..");
    }
    s
}

fn dbg<T: Debug>(v: &T, n: usize) -> String {
    trunc(format!("{v:?}"), n)
}

// ---------------------------------------------------------------------------
// In-memory transport
// ---------------------------------------------------------------------------

struct Mem {
    data: Vec<u8>,
    pos: usize,
    /// Chunk sizes (each >= 1), summing to `data.len()`.
    chunks: Vec<usize>,
    ci: usize,
    left: usize,
    /// `pend[i]`: return `Pending` once before chunk `i` (index `chunks.len()`
    /// = before EOF).
    pend: Vec<bool>,
    pended: bool,
    /// Reads answered with EOF so far; a wrapper that keeps reading after EOF
    /// gets an I/O error instead of spinning forever.
    eof_reads: u32,
}

impl Mem {
    fn new(data: Vec<u8>, chunks: Vec<usize>, pend: Vec<bool>) -> Mem {
        let left = chunks.first().copied().unwrap_or(0);
        Mem {
            data,
            pos: 0,
            chunks,
            ci: 0,
            left,
            pend,
            pended: false,
            eof_reads: 0,
        }
    }
}

impl AsyncRead for Mem {
    fn poll_read(
        self: Pin<&mut Self>,
        cx: &mut Context<'_>,
        buf: &mut ReadBuf<'_>,
    ) -> Poll<std::io::Result<()>> {
        let me = self.get_mut();
        let at_boundary = me.ci >= me.chunks.len() || me.left == me.chunks[me.ci];
        if at_boundary && !me.pended && me.pend.get(me.ci).copied().unwrap_or(false) {
            me.pended = true;
            cx.waker().wake_by_ref();
            return Poll::Pending;
        }
        if me.ci >= me.chunks.len() {
            // EOF
            me.eof_reads += 1;
            if me.eof_reads > 16 {
                return Poll::Ready(Err(std::io::Error::other("harness: read after EOF")));
            }
            return Poll::Ready(Ok(()));
        }
        let n = me.left.min(buf.remaining()).min(me.data.len() - me.pos);
        buf.put_slice(&me.data[me.pos..me.pos + n]);
        me.pos += n;
        me.left -= n;
        if me.left == 0 {
            me.ci += 1;
            me.left = me.chunks.get(me.ci).copied().unwrap_or(0);
            me.pended = false;
        }
        Poll::Ready(Ok(()))
    }
}

impl AsyncWrite for Mem {
    fn poll_write(
        self: Pin<&mut Self>,
        _cx: &mut Context<'_>,
        buf: &[u8],
    ) -> Poll<std::io::Result<usize>> {
        Poll::Ready(Ok(buf.len()))
    }
    fn poll_flush(self: Pin<&mut Self>, _cx: &mut Context<'_>) -> Poll<std::io::Result<()>> {
        Poll::Ready(Ok(()))
    }
    fn poll_shutdown(self: Pin<&mut Self>, _cx: &mut Context<'_>) -> Poll<std::io::Result<()>> {
        Poll::Ready(Ok(()))
    }
}

thread_local! {
    static RT: tokio::runtime::Runtime = tokio::runtime::Builder::new_current_thread()
        .enable_time()
        .start_paused(true)
        .build()
        .expect("tokio runtime");
}

// ---------------------------------------------------------------------------
// The four decoders behind one interface
// ---------------------------------------------------------------------------

/// How the stream wrapper ended.
#[derive(Debug)]
enum WrapEnd {
    /// End of stream reported (clean or "bytes remaining"/"connection reset").
    Eof(String),
    /// A decoding error was reported.
    Error(String),
    /// Something that is neither (keep-alive timeout of the Network wrapper).
    Other(String),
}

#[derive(Clone, Copy)]
struct WrapOpt {
    /// rumqttd Network: 0 never call readv, 1 after every read, 2 seeded
    readv_mode: u8,
    readv_bits: u32,
    buf_len: usize,
}

trait Dec {
    const NAME: &'static str;
    const V5: bool;
    type Pkt: PartialEq + Debug;
    type Err: Debug;
    fn one_shot(buf: &mut BytesMut, max: Option<usize>) -> Result<Self::Pkt, Self::Err>;
    fn need_more(e: &Self::Err) -> bool;
    /// Drives the stream wrapper to its end. May unwind; the caller guards.
    fn drive(mem: Mem, max: Option<usize>, opt: WrapOpt, out: &mut Vec<Self::Pkt>) -> WrapEnd;
}

async fn drive_framed<C>(mem: Mem, codec: C, out: &mut Vec<C::Item>) -> Option<Result<(), C::Error>>
where
    C: tokio_util::codec::Decoder,
{
    use futures_util::StreamExt;
    let mut framed = tokio_util::codec::Framed::new(mem, codec);
    loop {
        match framed.next().await {
            Some(Ok(p)) => out.push(p),
            Some(Err(e)) => return Some(Err(e)),
            None => return None,
        }
    }
}

async fn drive_network<P: d::Protocol>(
    mem: Mem,
    max: usize,
    opt: WrapOpt,
    proto: P,
    out: &mut Vec<d::Packet>,
) -> WrapEnd {
    let mut net = d::Network::new(Box::new(mem), max, opt.buf_len, proto);
    let mut k = 0u32;
    loop {
        match net.read().await {
            Ok(p) => out.push(p),
            Err(d::NetworkError::Io(e)) => {
                return match e.kind() {
                    std::io::ErrorKind::ConnectionAborted | std::io::ErrorKind::ConnectionReset => {
                        WrapEnd::Eof(format!("{:?}", e.kind()))
                    }
                    _ => WrapEnd::Error(format!("Io({e:?})")),
                }
            }
            Err(d::NetworkError::Protocol(e)) => return WrapEnd::Error(format!("{e:?}")),
            Err(e) => return WrapEnd::Other(format!("{e:?}")),
        }
        let call = match opt.readv_mode {
            0 => false,
            1 => true,
            _ => (opt.readv_bits >> (k % 32)) & 1 == 1,
        };
        k += 1;
        if call {
            let mut dq = VecDeque::new();
            let r = net.readv(&mut dq);
            out.extend(dq);
            if let Err(e) = r {
                return WrapEnd::Error(format!("readv: {e:?}"));
            }
        }
    }
}

struct RcV4;
struct RcV5;
struct RdV4;
struct RdV5;

impl Dec for RcV4 {
    const NAME: &'static str = "rumqttc-v4";
    const V5: bool = false;
    type Pkt = c4::Packet;
    type Err = c4::Error;
    fn one_shot(buf: &mut BytesMut, max: Option<usize>) -> Result<c4::Packet, c4::Error> {
        c4::Packet::read(buf, max.unwrap_or(usize::MAX))
    }
    fn need_more(e: &c4::Error) -> bool {
        matches!(e, c4::Error::InsufficientBytes(_))
    }
    fn drive(mem: Mem, max: Option<usize>, _opt: WrapOpt, out: &mut Vec<c4::Packet>) -> WrapEnd {
        let codec = c4::Codec {
            max_incoming_size: max.unwrap_or(usize::MAX),
            max_outgoing_size: usize::MAX,
        };
        match RT.with(|rt| rt.block_on(drive_framed(mem, codec, out))) {
            None => WrapEnd::Eof("stream end".into()),
            Some(Err(c4::Error::Io(e))) if e.to_string().contains("bytes remaining on stream") => {
                WrapEnd::Eof(format!("Io({e})"))
            }
            Some(Err(c4::Error::Io(e))) => WrapEnd::Other(format!("Io({e})")),
            Some(Err(e)) => WrapEnd::Error(format!("{e:?}")),
            Some(Ok(())) => WrapEnd::Other("?".into()),
        }
    }
}

impl Dec for RcV5 {
    const NAME: &'static str = "rumqttc-v5";
    const V5: bool = true;
    type Pkt = c5::Packet;
    type Err = c5::Error;
    fn one_shot(buf: &mut BytesMut, max: Option<usize>) -> Result<c5::Packet, c5::Error> {
        c5::Packet::read(buf, max.map(|m| m as u32))
    }
    fn need_more(e: &c5::Error) -> bool {
        matches!(e, c5::Error::InsufficientBytes(_))
    }
    fn drive(mem: Mem, max: Option<usize>, _opt: WrapOpt, out: &mut Vec<c5::Packet>) -> WrapEnd {
        let codec = c5::Codec {
            max_incoming_size: max.map(|m| m as u32),
            max_outgoing_size: None,
        };
        match RT.with(|rt| rt.block_on(drive_framed(mem, codec, out))) {
            None => WrapEnd::Eof("stream end".into()),
            Some(Err(c5::Error::Io(e))) if e.to_string().contains("bytes remaining on stream") => {
                WrapEnd::Eof(format!("Io({e})"))
            }
            Some(Err(c5::Error::Io(e))) => WrapEnd::Other(format!("Io({e})")),
            Some(Err(e)) => WrapEnd::Error(format!("{e:?}")),
            Some(Ok(())) => WrapEnd::Other("?".into()),
        }
    }
}

impl Dec for RdV4 {
    const NAME: &'static str = "rumqttd-v4";
    const V5: bool = false;
    type Pkt = d::Packet;
    type Err = d::Error;
    fn one_shot(buf: &mut BytesMut, max: Option<usize>) -> Result<d::Packet, d::Error> {
        d::Protocol::read_mut(&mut d::V4, buf, max.unwrap_or(usize::MAX))
    }
    fn need_more(e: &d::Error) -> bool {
        matches!(e, d::Error::InsufficientBytes(_))
    }
    fn drive(mem: Mem, max: Option<usize>, opt: WrapOpt, out: &mut Vec<d::Packet>) -> WrapEnd {
        RT.with(|rt| rt.block_on(drive_network(mem, max.unwrap_or(usize::MAX), opt, d::V4, out)))
    }
}

impl Dec for RdV5 {
    const NAME: &'static str = "rumqttd-v5";
    const V5: bool = true;
    type Pkt = d::Packet;
    type Err = d::Error;
    fn one_shot(buf: &mut BytesMut, max: Option<usize>) -> Result<d::Packet, d::Error> {
        d::Protocol::read_mut(&mut d::V5, buf, max.unwrap_or(usize::MAX))
    }
    fn need_more(e: &d::Error) -> bool {
        matches!(e, d::Error::InsufficientBytes(_))
    }
    fn drive(mem: Mem, max: Option<usize>, opt: WrapOpt, out: &mut Vec<d::Packet>) -> WrapEnd {
        RT.with(|rt| rt.block_on(drive_network(mem, max.unwrap_or(usize::MAX), opt, d::V5, out)))
    }
}

// ---------------------------------------------------------------------------
// Generated values
// ---------------------------------------------------------------------------

fn g_topic(ch: &mut Choices) -> String {
    ch.choose(&[
        "a",
        "a/b",
        "sensors/t1/temp",
        "x/y/z/w",
        "",
        "t\u{f3}pico/\u{fc}",
        "a-rather-long-topic-name/with/several/levels/0123456789",
    ])
    .to_string()
}

fn g_filter(ch: &mut Choices) -> String {
    ch.choose(&["a", "a/+", "#", "a/b/#", "+/+", "$share/g/a/b", "", "sensors/+/temp"])
        .to_string()
}

fn g_text(ch: &mut Choices) -> String {
    ch.choose(&["", "r", "reason", "k\u{e4}y", "some longer text value"])
        .to_string()
}

fn g_opt<T>(ch: &mut Choices, f: impl FnOnce(&mut Choices) -> T) -> Option<T> {
    if ch.coin(1, 3) {
        Some(f(ch))
    } else {
        None
    }
}

fn g_uprops(ch: &mut Choices) -> Vec<(String, String)> {
    let n = ch.weighted(&[6, 2, 1]).unwrap_or(0);
    (0..n).map(|_| (g_text(ch), g_text(ch))).collect()
}

fn g_pkid(ch: &mut Choices) -> u16 {
    match ch.weighted(&[4, 6, 1, 1]).unwrap_or(0) {
        0 => 1,
        1 => ch.range(1, 65535) as u16,
        2 => 0,
        _ => 65535,
    }
}

fn g_payload(ch: &mut Choices) -> Vec<u8> {
    let n = match ch.weighted(&[6, 10, 5, 1, 1]).unwrap_or(0) {
        0 => 0usize,
        1 => ch.range(1, 12) as usize,
        2 => ch.range(100, 300) as usize,
        3 => ch.range(16_370, 16_390) as usize,
        _ => 20_000,
    };
    let mut v = Vec::with_capacity(n);
    if n <= 12 {
        for _ in 0..n {
            v.push(ch.pick(256) as u8);
        }
    } else {
        let s = ch.pick(256) as usize;
        for i in 0..n {
            v.push((i * 7 + s) as u8);
        }
    }
    v
}

fn g_u8(ch: &mut Choices) -> u8 {
    *ch.choose(&[0u8, 1, 2, 255])
}
fn g_u16(ch: &mut Choices) -> u16 {
    *ch.choose(&[0u16, 1, 10, 65535])
}
fn g_u32(ch: &mut Choices) -> u32 {
    *ch.choose(&[0u32, 1, 3600, 268_435_455, u32::MAX])
}
fn g_bytes(ch: &mut Choices) -> Bytes {
    Bytes::from(g_payload_small(ch))
}
fn g_payload_small(ch: &mut Choices) -> Vec<u8> {
    let n = ch.pick(6) as usize;
    (0..n).map(|_| ch.pick(256) as u8).collect()
}

macro_rules! ack_props {
    ($ch:expr; $($T:tt)+) => {
        $($T)+ { reason_string: g_opt($ch, g_text), user_properties: g_uprops($ch) }
    };
}

macro_rules! connack_props {
    ($ch:expr; $($T:tt)+) => {
        $($T)+ {
            session_expiry_interval: g_opt($ch, g_u32),
            receive_max: g_opt($ch, g_u16),
            max_qos: g_opt($ch, g_u8),
            retain_available: g_opt($ch, g_u8),
            max_packet_size: g_opt($ch, g_u32),
            assigned_client_identifier: g_opt($ch, g_text),
            topic_alias_max: g_opt($ch, g_u16),
            reason_string: g_opt($ch, g_text),
            user_properties: g_uprops($ch),
            wildcard_subscription_available: g_opt($ch, g_u8),
            subscription_identifiers_available: g_opt($ch, g_u8),
            shared_subscription_available: g_opt($ch, g_u8),
            server_keep_alive: g_opt($ch, g_u16),
            response_information: g_opt($ch, g_text),
            server_reference: g_opt($ch, g_text),
            authentication_method: g_opt($ch, g_text),
            authentication_data: g_opt($ch, g_bytes),
        }
    };
}

macro_rules! connect_props {
    ($ch:expr; $($T:tt)+) => {
        $($T)+ {
            session_expiry_interval: g_opt($ch, g_u32),
            receive_maximum: g_opt($ch, g_u16),
            max_packet_size: g_opt($ch, g_u32),
            topic_alias_max: g_opt($ch, g_u16),
            request_response_info: g_opt($ch, g_u8),
            request_problem_info: g_opt($ch, g_u8),
            user_properties: g_uprops($ch),
            authentication_method: g_opt($ch, g_text),
            authentication_data: g_opt($ch, g_bytes),
        }
    };
}

macro_rules! will_props {
    ($ch:expr; $($T:tt)+) => {
        $($T)+ {
            delay_interval: g_opt($ch, g_u32),
            payload_format_indicator: g_opt($ch, g_u8),
            message_expiry_interval: g_opt($ch, g_u32),
            content_type: g_opt($ch, g_text),
            response_topic: g_opt($ch, g_topic),
            correlation_data: g_opt($ch, g_bytes),
            user_properties: g_uprops($ch),
        }
    };
}

macro_rules! publish_props {
    ($ch:expr; $($T:tt)+) => {
        $($T)+ {
            payload_format_indicator: g_opt($ch, g_u8),
            message_expiry_interval: g_opt($ch, g_u32),
            topic_alias: g_opt($ch, g_u16),
            response_topic: g_opt($ch, g_topic),
            correlation_data: g_opt($ch, g_bytes),
            user_properties: g_uprops($ch),
            subscription_identifiers: {
                let n = $ch.weighted(&[6, 2, 1]).unwrap_or(0);
                (0..n).map(|_| *$ch.choose(&[1usize, 127, 128, 16_384, 268_435_455])).collect()
            },
            content_type: g_opt($ch, g_text),
        }
    };
}

macro_rules! disconnect_props {
    ($ch:expr; $($T:tt)+) => {
        $($T)+ {
            session_expiry_interval: g_opt($ch, g_u32),
            reason_string: g_opt($ch, g_text),
            user_properties: g_uprops($ch),
            server_reference: g_opt($ch, g_text),
        }
    };
}

/// Packet kinds: 0 Connect 1 ConnAck 2 Publish 3 PubAck 4 PubRec 5 PubRel
/// 6 PubComp 7 Subscribe 8 SubAck 9 Unsubscribe 10 UnsubAck 11 PingReq
/// 12 PingResp 13 Disconnect
const KIND_W: [u32; 14] = [3, 2, 8, 2, 2, 2, 2, 3, 2, 2, 2, 1, 1, 2];

fn c4_qos(ch: &mut Choices) -> c4::QoS {
    *ch.choose(&[c4::QoS::AtMostOnce, c4::QoS::AtLeastOnce, c4::QoS::ExactlyOnce])
}
fn c5_qos(ch: &mut Choices) -> c5::QoS {
    *ch.choose(&[c5::QoS::AtMostOnce, c5::QoS::AtLeastOnce, c5::QoS::ExactlyOnce])
}
fn d_qos(ch: &mut Choices) -> d::QoS {
    *ch.choose(&[d::QoS::AtMostOnce, d::QoS::AtLeastOnce, d::QoS::ExactlyOnce])
}

fn gen_c4(ch: &mut Choices, kind: usize) -> c4::Packet {
    use c4::*;
    match kind {
        0 => Packet::Connect(Connect {
            protocol: Protocol::V4,
            keep_alive: g_u16(ch),
            client_id: g_text(ch),
            clean_session: ch.coin(1, 2),
            last_will: g_opt(ch, |ch| LastWill {
                topic: g_topic(ch),
                message: g_bytes(ch),
                qos: c4_qos(ch),
                retain: ch.coin(1, 2),
            }),
            login: g_opt(ch, |ch| Login {
                username: g_text(ch),
                password: g_text(ch),
            }),
        }),
        1 => Packet::ConnAck(ConnAck {
            session_present: ch.coin(1, 2),
            code: *ch.choose(&[
                ConnectReturnCode::Success,
                ConnectReturnCode::RefusedProtocolVersion,
                ConnectReturnCode::BadClientId,
                ConnectReturnCode::ServiceUnavailable,
                ConnectReturnCode::BadUserNamePassword,
                ConnectReturnCode::NotAuthorized,
            ]),
        }),
        2 => Packet::Publish(Publish {
            dup: ch.coin(1, 4),
            qos: c4_qos(ch),
            retain: ch.coin(1, 4),
            topic: g_topic(ch),
            pkid: g_pkid(ch),
            payload: Bytes::from(g_payload(ch)),
        }),
        3 => Packet::PubAck(PubAck { pkid: g_pkid(ch) }),
        4 => Packet::PubRec(PubRec { pkid: g_pkid(ch) }),
        5 => Packet::PubRel(PubRel { pkid: g_pkid(ch) }),
        6 => Packet::PubComp(PubComp { pkid: g_pkid(ch) }),
        7 => Packet::Subscribe(Subscribe {
            pkid: g_pkid(ch),
            filters: (0..ch.range(1, 3))
                .map(|_| SubscribeFilter {
                    path: g_filter(ch),
                    qos: c4_qos(ch),
                })
                .collect(),
        }),
        8 => Packet::SubAck(SubAck {
            pkid: g_pkid(ch),
            return_codes: (0..ch.range(1, 3))
                .map(|_| {
                    if ch.coin(1, 4) {
                        SubscribeReasonCode::Failure
                    } else {
                        SubscribeReasonCode::Success(c4_qos(ch))
                    }
                })
                .collect(),
        }),
        9 => Packet::Unsubscribe(Unsubscribe {
            pkid: g_pkid(ch),
            topics: (0..ch.range(1, 3)).map(|_| g_filter(ch)).collect(),
        }),
        10 => Packet::UnsubAck(UnsubAck { pkid: g_pkid(ch) }),
        11 => Packet::PingReq,
        12 => Packet::PingResp,
        _ => Packet::Disconnect,
    }
}

fn gen_c5(ch: &mut Choices, kind: usize) -> c5::Packet {
    use c5::*;
    match kind {
        0 => Packet::Connect(
            Connect {
                keep_alive: g_u16(ch),
                client_id: g_text(ch),
                clean_start: ch.coin(1, 2),
                properties: g_opt(ch, |ch| connect_props!(ch; ConnectProperties)),
            },
            g_opt(ch, |ch| LastWill {
                topic: Bytes::from(g_topic(ch).into_bytes()),
                message: g_bytes(ch),
                qos: c5_qos(ch),
                retain: ch.coin(1, 2),
                properties: g_opt(ch, |ch| will_props!(ch; LastWillProperties)),
            }),
            g_opt(ch, |ch| Login {
                username: g_text(ch),
                password: g_text(ch),
            }),
        ),
        1 => Packet::ConnAck(ConnAck {
            session_present: ch.coin(1, 2),
            code: *ch.choose(&[
                ConnectReturnCode::Success,
                ConnectReturnCode::UnspecifiedError,
                ConnectReturnCode::MalformedPacket,
                ConnectReturnCode::NotAuthorized,
                ConnectReturnCode::ServerBusy,
                ConnectReturnCode::QuotaExceeded,
            ]),
            properties: g_opt(ch, |ch| connack_props!(ch; ConnAckProperties)),
        }),
        2 => Packet::Publish(Publish {
            dup: ch.coin(1, 4),
            qos: c5_qos(ch),
            retain: ch.coin(1, 4),
            topic: Bytes::from(g_topic(ch).into_bytes()),
            pkid: g_pkid(ch),
            payload: Bytes::from(g_payload(ch)),
            properties: g_opt(ch, |ch| publish_props!(ch; PublishProperties)),
        }),
        3 => Packet::PubAck(PubAck {
            pkid: g_pkid(ch),
            reason: *ch.choose(&[
                PubAckReason::Success,
                PubAckReason::NoMatchingSubscribers,
                PubAckReason::NotAuthorized,
                PubAckReason::QuotaExceeded,
            ]),
            properties: g_opt(ch, |ch| ack_props!(ch; PubAckProperties)),
        }),
        4 => Packet::PubRec(PubRec {
            pkid: g_pkid(ch),
            reason: *ch.choose(&[
                PubRecReason::Success,
                PubRecReason::NoMatchingSubscribers,
                PubRecReason::PacketIdentifierInUse,
            ]),
            properties: g_opt(ch, |ch| ack_props!(ch; PubRecProperties)),
        }),
        5 => Packet::PubRel(PubRel {
            pkid: g_pkid(ch),
            reason: *ch.choose(&[PubRelReason::Success, PubRelReason::PacketIdentifierNotFound]),
            properties: g_opt(ch, |ch| ack_props!(ch; PubRelProperties)),
        }),
        6 => Packet::PubComp(PubComp {
            pkid: g_pkid(ch),
            reason: *ch.choose(&[PubCompReason::Success, PubCompReason::PacketIdentifierNotFound]),
            properties: g_opt(ch, |ch| ack_props!(ch; PubCompProperties)),
        }),
        7 => Packet::Subscribe(Subscribe {
            pkid: g_pkid(ch),
            filters: (0..ch.range(1, 3))
                .map(|_| Filter {
                    path: g_filter(ch),
                    qos: c5_qos(ch),
                    nolocal: ch.coin(1, 3),
                    preserve_retain: ch.coin(1, 3),
                    retain_forward_rule: ch
                        .choose(&[
                            RetainForwardRule::OnEverySubscribe,
                            RetainForwardRule::OnNewSubscribe,
                            RetainForwardRule::Never,
                        ])
                        .clone(),
                })
                .collect(),
            properties: g_opt(ch, |ch| SubscribeProperties {
                id: g_opt(ch, |ch| *ch.choose(&[1usize, 128, 268_435_455])),
                user_properties: g_uprops(ch),
            }),
        }),
        8 => Packet::SubAck(SubAck {
            pkid: g_pkid(ch),
            return_codes: (0..ch.range(1, 3))
                .map(|_| match ch.pick(4) {
                    0 => SubscribeReasonCode::Unspecified,
                    1 => SubscribeReasonCode::NotAuthorized,
                    _ => SubscribeReasonCode::Success(c5_qos(ch)),
                })
                .collect(),
            properties: g_opt(ch, |ch| ack_props!(ch; SubAckProperties)),
        }),
        9 => Packet::Unsubscribe(Unsubscribe {
            pkid: g_pkid(ch),
            filters: (0..ch.range(1, 3)).map(|_| g_filter(ch)).collect(),
            properties: g_opt(ch, |ch| UnsubscribeProperties {
                user_properties: g_uprops(ch),
            }),
        }),
        10 => Packet::UnsubAck(UnsubAck {
            pkid: g_pkid(ch),
            reasons: (0..ch.range(1, 3))
                .map(|_| {
                    *ch.choose(&[
                        UnsubAckReason::Success,
                        UnsubAckReason::NoSubscriptionExisted,
                        UnsubAckReason::NotAuthorized,
                    ])
                })
                .collect(),
            properties: g_opt(ch, |ch| ack_props!(ch; UnsubAckProperties)),
        }),
        11 => Packet::PingReq(PingReq),
        12 => Packet::PingResp(PingResp),
        _ => Packet::Disconnect(Disconnect {
            reason_code: *ch.choose(&[
                DisconnectReasonCode::NormalDisconnection,
                DisconnectReasonCode::DisconnectWithWillMessage,
                DisconnectReasonCode::ProtocolError,
                DisconnectReasonCode::SessionTakenOver,
            ]),
            properties: g_opt(ch, |ch| disconnect_props!(ch; DisconnectProperties)),
        }),
    }
}

/// rumqttd packet value; `v5` allows properties and v5-only codes.
fn gen_d(ch: &mut Choices, kind: usize, v5: bool) -> d::Packet {
    use d::*;
    fn p<T>(ch: &mut Choices, v5: bool, f: impl FnOnce(&mut Choices) -> T) -> Option<T> {
        if v5 {
            g_opt(ch, f)
        } else {
            None
        }
    }
    match kind {
        0 => {
            let will = g_opt(ch, |ch| LastWill {
                topic: Bytes::from(g_topic(ch).into_bytes()),
                message: g_bytes(ch),
                qos: d_qos(ch),
                retain: ch.coin(1, 2),
            });
            let will_props = if will.is_some() {
                p(ch, v5, |ch| will_props!(ch; LastWillProperties))
            } else {
                None
            };
            Packet::Connect(
                Connect {
                    keep_alive: g_u16(ch),
                    client_id: g_text(ch),
                    clean_session: ch.coin(1, 2),
                },
                p(ch, v5, |ch| connect_props!(ch; ConnectProperties)),
                will,
                will_props,
                g_opt(ch, |ch| Login {
                    username: g_text(ch),
                    password: g_text(ch),
                }),
            )
        }
        1 => Packet::ConnAck(
            ConnAck {
                session_present: ch.coin(1, 2),
                code: if v5 {
                    *ch.choose(&[
                        ConnectReturnCode::Success,
                        ConnectReturnCode::UnspecifiedError,
                        ConnectReturnCode::NotAuthorized,
                        ConnectReturnCode::ServerBusy,
                    ])
                } else {
                    *ch.choose(&[
                        ConnectReturnCode::Success,
                        ConnectReturnCode::RefusedProtocolVersion,
                        ConnectReturnCode::ClientIdentifierNotValid,
                        ConnectReturnCode::NotAuthorized,
                    ])
                },
            },
            p(ch, v5, |ch| connack_props!(ch; ConnAckProperties)),
        ),
        2 => {
            // dup / qos / pkid are crate-private: go through the public
            // `Publish::deserialize` (the broker's own storage format)
            let topic = g_topic(ch);
            let payload = g_payload(ch);
            let qos = ch.pick(3) as u8;
            let dup = ch.coin(1, 4) as u8;
            let retain = ch.coin(1, 4) as u8;
            let pkid = if qos == 0 { 0 } else { g_pkid(ch) };
            let mut o = Vec::with_capacity(5 + topic.len() + payload.len());
            o.push(0x30 | retain | (qos << 1) | (dup << 3));
            o.extend_from_slice(&pkid.to_be_bytes());
            o.extend_from_slice(&(topic.len() as u16).to_be_bytes());
            o.extend_from_slice(topic.as_bytes());
            o.extend_from_slice(&payload);
            Packet::Publish(
                Publish::deserialize(Bytes::from(o)),
                p(ch, v5, |ch| publish_props!(ch; PublishProperties)),
            )
        }
        3 => Packet::PubAck(
            PubAck {
                pkid: g_pkid(ch),
                reason: if v5 {
                    *ch.choose(&[
                        PubAckReason::Success,
                        PubAckReason::NoMatchingSubscribers,
                        PubAckReason::NotAuthorized,
                    ])
                } else {
                    PubAckReason::Success
                },
            },
            p(ch, v5, |ch| ack_props!(ch; PubAckProperties)),
        ),
        4 => Packet::PubRec(
            PubRec {
                pkid: g_pkid(ch),
                reason: if v5 {
                    *ch.choose(&[PubRecReason::Success, PubRecReason::QuotaExceeded])
                } else {
                    PubRecReason::Success
                },
            },
            p(ch, v5, |ch| ack_props!(ch; PubRecProperties)),
        ),
        5 => Packet::PubRel(
            PubRel {
                pkid: g_pkid(ch),
                reason: if v5 {
                    *ch.choose(&[PubRelReason::Success, PubRelReason::PacketIdentifierNotFound])
                } else {
                    PubRelReason::Success
                },
            },
            p(ch, v5, |ch| ack_props!(ch; PubRelProperties)),
        ),
        6 => Packet::PubComp(
            PubComp {
                pkid: g_pkid(ch),
                reason: if v5 {
                    *ch.choose(&[PubCompReason::Success, PubCompReason::PacketIdentifierNotFound])
                } else {
                    PubCompReason::Success
                },
            },
            p(ch, v5, |ch| ack_props!(ch; PubCompProperties)),
        ),
        7 => Packet::Subscribe(
            Subscribe {
                pkid: g_pkid(ch),
                filters: (0..ch.range(1, 3))
                    .map(|_| Filter {
                        path: g_filter(ch),
                        qos: d_qos(ch),
                        nolocal: v5 && ch.coin(1, 3),
                        preserve_retain: v5 && ch.coin(1, 3),
                        retain_forward_rule: if v5 {
                            ch.choose(&[
                                RetainForwardRule::OnEverySubscribe,
                                RetainForwardRule::OnNewSubscribe,
                                RetainForwardRule::Never,
                            ])
                            .clone()
                        } else {
                            RetainForwardRule::OnEverySubscribe
                        },
                    })
                    .collect(),
            },
            p(ch, v5, |ch| SubscribeProperties {
                id: g_opt(ch, |ch| *ch.choose(&[1usize, 128, 268_435_455])),
                user_properties: g_uprops(ch),
            }),
        ),
        8 => Packet::SubAck(
            SubAck {
                pkid: g_pkid(ch),
                return_codes: (0..ch.range(1, 3))
                    .map(|_| match ch.pick(4) {
                        0 => SubscribeReasonCode::Failure,
                        1 if v5 => SubscribeReasonCode::NotAuthorized,
                        _ => SubscribeReasonCode::Success(d_qos(ch)),
                    })
                    .collect(),
            },
            p(ch, v5, |ch| ack_props!(ch; SubAckProperties)),
        ),
        9 => Packet::Unsubscribe(
            Unsubscribe {
                pkid: g_pkid(ch),
                filters: (0..ch.range(1, 3)).map(|_| g_filter(ch)).collect(),
            },
            p(ch, v5, |ch| UnsubscribeProperties {
                user_properties: g_uprops(ch),
            }),
        ),
        10 => Packet::UnsubAck(
            UnsubAck {
                pkid: g_pkid(ch),
                reasons: if v5 {
                    (0..ch.range(1, 3))
                        .map(|_| {
                            *ch.choose(&[
                                UnsubAckReason::Success,
                                UnsubAckReason::NoSubscriptionExisted,
                            ])
                        })
                        .collect()
                } else {
                    Vec::new()
                },
            },
            p(ch, v5, |ch| ack_props!(ch; UnsubAckProperties)),
        ),
        11 => Packet::PingReq(PingReq),
        12 => Packet::PingResp(PingResp),
        _ => Packet::Disconnect(
            Disconnect {
                reason_code: if v5 {
                    *ch.choose(&[
                        DisconnectReasonCode::NormalDisconnection,
                        DisconnectReasonCode::ProtocolError,
                        DisconnectReasonCode::ServerShuttingDown,
                    ])
                } else {
                    DisconnectReasonCode::NormalDisconnection
                },
            },
            p(ch, v5, |ch| disconnect_props!(ch; DisconnectProperties)),
        ),
    }
}

/// One valid frame of protocol version `v5`, encoded by one of the two
/// encoders of that version (`from_broker`: rumqttd's, else rumqttc's).
/// `None` when the encoder refused or unwound (not this property's concern).
fn encode_frame(ch: &mut Choices, v5: bool, from_broker: bool, rep: &mut RunReport) -> Option<Vec<u8>> {
    let kind = ch.weighted(&KIND_W).unwrap_or(2);
    let mut buf = BytesMut::new();
    let r: Result<bool, (String, String)> = match (v5, from_broker) {
        (false, false) => {
            let p = gen_c4(ch, kind);
            guarded(|| p.write(&mut buf, usize::MAX).is_ok())
        }
        (true, false) => {
            let p = gen_c5(ch, kind);
            guarded(|| p.write(&mut buf, None).is_ok())
        }
        (false, true) => {
            let p = gen_d(ch, kind, false);
            guarded(|| d::Protocol::write(&d::V4, p, &mut buf).is_ok())
        }
        (true, true) => {
            let p = gen_d(ch, kind, true);
            guarded(|| d::Protocol::write(&d::V5, p, &mut buf).is_ok())
        }
    };
    match r {
        Ok(true) if !buf.is_empty() => Some(buf.to_vec()),
        Ok(_) => {
            rep.probe("encoder_refused");
            None
        }
        Err(_) => {
            rep.probe("encoder_panicked");
            None
        }
    }
}

fn valid_stream(ch: &mut Choices, v5: bool, rep: &mut RunReport, lo: u32, hi: u32) -> Vec<u8> {
    let n = ch.range(lo, hi);
    // frames of one stream come from one encoder most of the time
    let broker_mode = ch.pick(3); // 0 client encoder, 1 broker encoder, 2 mixed
    let mut out = Vec::new();
    for _ in 0..n {
        let from_broker = match broker_mode {
            0 => false,
            1 => true,
            _ => ch.coin(1, 2),
        };
        if let Some(f) = encode_frame(ch, v5, from_broker, rep) {
            out.extend_from_slice(&f);
        }
    }
    out
}

fn mutate(ch: &mut Choices, s: &mut Vec<u8>, rep: &mut RunReport) {
    let n_mut = ch.range(1, 3);
    for _ in 0..n_mut {
        if s.is_empty() {
            s.push(ch.pick(256) as u8);
            continue;
        }
        let len = s.len() as u32;
        let frames = walk_frames(s);
        let op = ch.pick(8);
        match op {
            0 => {
                let pos = ch.pick(len) as usize;
                s[pos] ^= 1 << ch.pick(8);
                tr!(rep, "mut flip_bit at {pos}");
            }
            1 => {
                let pos = ch.pick(len) as usize;
                let v = match ch.pick(6) {
                    0 => 0,
                    1 => 1,
                    2 => 0x7f,
                    3 => 0x80,
                    4 => 0xff,
                    _ => ch.pick(256) as u8,
                };
                s[pos] = v;
                tr!(rep, "mut overwrite at {pos} = {v:#04x}");
            }
            2 => {
                // edit a remaining-length byte of some frame
                let (start, len_len, _, _) = if frames.is_empty() {
                    (0, 1, 0, false)
                } else {
                    frames[ch.pick(frames.len() as u32) as usize]
                };
                let pos = start + 1 + ch.pick(len_len as u32) as usize;
                if pos < s.len() {
                    let old = s[pos];
                    let v = match ch.pick(8) {
                        0 => old.wrapping_add(1),
                        1 => old.wrapping_sub(1),
                        2 => old | 0x80,
                        3 => old & 0x7f,
                        4 => 0,
                        5 => 0x7f,
                        6 => 0xff,
                        _ => ch.pick(256) as u8,
                    };
                    s[pos] = v;
                    tr!(rep, "mut remaining_length byte at {pos}: {old:#04x} -> {v:#04x}");
                }
            }
            3 => {
                let new_len = ch.pick(len) as usize;
                s.truncate(new_len);
                tr!(rep, "mut truncate to {new_len}");
            }
            4 => {
                let start = if frames.is_empty() {
                    0
                } else {
                    frames[ch.pick(frames.len() as u32) as usize].0
                };
                let nib = ch.pick(16) as u8;
                let flags = if ch.coin(1, 4) { ch.pick(16) as u8 } else { s[start] & 0x0f };
                s[start] = (nib << 4) | flags;
                tr!(rep, "mut type nibble at {start} -> {:#04x}", s[start]);
            }
            5 => {
                let a = ch.pick(len) as usize;
                let l = 1 + ch.pick(16.min(len - a as u32)) as usize;
                let c = ch.pick(len + 1) as usize;
                let slice: Vec<u8> = s[a..a + l].to_vec();
                let tail = s.split_off(c);
                s.extend_from_slice(&slice);
                s.extend_from_slice(&tail);
                tr!(rep, "mut duplicate [{a}..{}) at {c}", a + l);
            }
            6 => {
                let a = ch.pick(len) as usize;
                let l = 1 + ch.pick(8.min(len - a as u32)) as usize;
                s.drain(a..a + l);
                tr!(rep, "mut delete [{a}..{})", a + l);
            }
            _ => {
                let c = ch.pick(len + 1) as usize;
                let l = ch.range(1, 4) as usize;
                let ins: Vec<u8> = (0..l).map(|_| ch.pick(256) as u8).collect();
                let tail = s.split_off(c);
                s.extend_from_slice(&ins);
                s.extend_from_slice(&tail);
                tr!(rep, "mut insert {l} bytes at {c}");
            }
        }
    }
}

fn varint(mut v: usize) -> Vec<u8> {
    let mut out = Vec::new();
    loop {
        let mut b = (v % 128) as u8;
        v /= 128;
        if v > 0 {
            b |= 0x80;
        }
        out.push(b);
        if v == 0 {
            break;
        }
    }
    out
}

const BOUNDARY_LENS: [usize; 10] = [0, 1, 2, 127, 128, 16_383, 16_384, 2_097_151, 2_097_152, 268_435_455];

fn boundary_stream(ch: &mut Choices, v5: bool, rep: &mut RunReport) -> Vec<u8> {
    let byte1 = ch.pick(256) as u8;
    let which = ch.pick(BOUNDARY_LENS.len() as u32 + 1) as usize;
    let (len_bytes, declared): (Vec<u8>, Option<usize>) = if which < BOUNDARY_LENS.len() {
        (varint(BOUNDARY_LENS[which]), Some(BOUNDARY_LENS[which]))
    } else {
        (vec![0xff, 0xff, 0xff, 0xff, 0x01], None)
    };
    let d = declared.unwrap_or(usize::MAX);
    // body length
    let body_len = match ch.weighted(&[2, 4, 5, 2, 2, 1]).unwrap_or(0) {
        0 => 0,
        1 => ch.range(1, 40) as usize,
        2 if d <= 20_000 => d,
        3 if (1..=20_001).contains(&d) => d - 1,
        4 if d <= 20_000 => d + ch.range(1, 5) as usize,
        5 => ch.range(100, 400) as usize,
        _ => ch.range(0, 8) as usize,
    };
    let mut s = Vec::with_capacity(1 + len_bytes.len() + body_len);
    s.push(byte1);
    s.extend_from_slice(&len_bytes);
    let plausible = ch.coin(1, 2);
    let seed = ch.pick(256) as usize;
    for i in 0..body_len {
        let b = if plausible && i < 6 {
            // topic "a", then pkid 1 / empty properties
            [0u8, 1, b'a', 0, 1, 0][i]
        } else if !plausible && i < 12 {
            ch.pick(256) as u8
        } else {
            (i * 13 + seed) as u8
        };
        s.push(b);
    }
    tr!(
        rep,
        "boundary byte1={byte1:#04x} len_bytes={} declared={declared:?} body={body_len}",
        hex(&len_bytes, 8)
    );
    if ch.coin(1, 3) {
        let tail = valid_stream(ch, v5, rep, 1, 2);
        s.extend_from_slice(&tail);
    }
    s
}

// ---------------------------------------------------------------------------
// Chunking
// ---------------------------------------------------------------------------

fn chunk_plan(ch: &mut Choices, data: &[u8], rep: &mut RunReport) -> (Vec<usize>, &'static str) {
    let n = data.len();
    if n == 0 {
        return (Vec::new(), "empty");
    }
    let mut cuts: Vec<usize> = Vec::new();
    let mode = ch.weighted(&[2, 2, 3, 3]).unwrap_or(0);
    let name = match mode {
        0 => "whole",
        1 => {
            rep.probe("one_byte_chunking");
            if n <= 3000 {
                cuts.extend(1..n);
            } else {
                cuts.extend(1..200);
                for _ in 0..ch.range(0, 6) {
                    cuts.push(1 + ch.pick(n as u32 - 1) as usize);
                }
            }
            "one_byte"
        }
        2 => {
            if n > 1 {
                for _ in 0..ch.range(1, 8) {
                    cuts.push(1 + ch.pick(n as u32 - 1) as usize);
                }
            }
            "random"
        }
        _ => {
            rep.probe("structural_chunking");
            for (start, len_len, rem, _) in walk_frames(data).into_iter().take(10) {
                let end = start + 1 + len_len + rem;
                let cands = [
                    start + 1,           // inside the fixed header
                    start + 2,           // inside the length bytes (if len_len >= 2)
                    start + 1 + len_len, // end of the fixed header
                    end.wrapping_sub(1), // one byte before the frame end
                    end,                 // exactly at the frame end
                    end + 1,
                ];
                for (i, c) in cands.iter().enumerate() {
                    if i == 1 && len_len < 2 {
                        continue;
                    }
                    if ch.coin(1, 2) {
                        cuts.push(*c);
                    }
                }
            }
            if ch.coin(1, 3) && n > 1 {
                cuts.push(1 + ch.pick(n as u32 - 1) as usize);
            }
            "structural"
        }
    };
    cuts.retain(|c| *c >= 1 && *c < n);
    cuts.sort_unstable();
    cuts.dedup();
    let mut chunks = Vec::with_capacity(cuts.len() + 1);
    let mut prev = 0;
    for c in cuts {
        chunks.push(c - prev);
        prev = c;
    }
    chunks.push(n - prev);
    (chunks, name)
}

// ---------------------------------------------------------------------------
// Reference + comparison
// ---------------------------------------------------------------------------

enum RefEnd {
    /// Everything consumed.
    Clean,
    /// The decoder asks for more bytes with `left` bytes in the buffer.
    NeedMore { left: usize },
    Malformed(String),
}

struct Case<'a> {
    delivered: &'a [u8],
    max: Option<usize>,
    chunks: Vec<usize>,
    pend: Vec<bool>,
    opt: WrapOpt,
}

fn check<D: Dec>(case: Case<'_>, rep: &mut RunReport) -> Outcome {
    let prefix = case.delivered;
    let max = case.max;
    // ---- reference: one-shot entry point on the whole delivered prefix ----
    let mut buf = BytesMut::from(prefix);
    let mut off = 0usize;
    let mut ref_pkts: Vec<D::Pkt> = Vec::new();
    let ref_end;
    loop {
        let before = buf.len();
        let hdr = parse_hdr(&prefix[off..]);
        if let Hdr::Complete { rem, .. } = hdr {
            if max.map(|m| rem > m).unwrap_or(false) {
                rep.probe("oversize_frame_seen");
            }
        }
        let r = guarded(|| D::one_shot(&mut buf, max));
        let here = || {
            format!(
                "{} max={max:?} at offset {off} of {} (header {hdr:?}, bytes {})",
                D::NAME,
                prefix.len(),
                hex(&prefix[off..], 48)
            )
        };
        match r {
            Err((loc, msg)) => {
                tr!(rep, "ref call at {off}: PANIC {loc}: {msg}");
                return viol(
                    &format!("panic:{loc}"),
                    format!("one-shot decode panicked ({msg}) in {}", here()),
                );
            }
            Ok(Ok(p)) => {
                let consumed = before.saturating_sub(buf.len());
                tr!(rep, "ref #{} at {off} consumed={consumed} {}", ref_pkts.len(), dbg(&p, 140));
                match hdr {
                    Hdr::Complete { len_len, rem } => {
                        let flen = 1 + len_len + rem;
                        if before < flen {
                            return viol(
                                "packet_from_incomplete_frame",
                                format!("packet {} from {before} bytes of a {flen}-byte frame: {}", dbg(&p, 100), here()),
                            );
                        }
                        if consumed != flen || buf.len() > before {
                            return viol(
                                "consumed_wrong_length",
                                format!("consumed {consumed} bytes for a frame of {flen}: {}", here()),
                            );
                        }
                        if let Some(m) = max {
                            if rem > m {
                                return viol(
                                    "oversize_frame_accepted",
                                    format!("declared remaining length {rem} > max {m} but a packet was produced: {}", here()),
                                );
                            }
                        }
                    }
                    _ => {
                        return viol(
                            "packet_from_bad_header",
                            format!("packet {} although the fixed header is {hdr:?}: {}", dbg(&p, 100), here()),
                        );
                    }
                }
                if buf[..] != prefix[off + consumed..] {
                    return viol(
                        "buffer_modified",
                        format!("bytes after the consumed frame changed: {}", here()),
                    );
                }
                rep.probe(TYPE_PROBE[(prefix[off] >> 4) as usize]);
                off += consumed;
                ref_pkts.push(p);
            }
            Ok(Err(e)) => {
                if D::need_more(&e) {
                    tr!(rep, "ref end at {off}: need more ({e:?}), {} bytes left", buf.len());
                    match hdr {
                        Hdr::Incomplete => {}
                        Hdr::Malformed => {
                            return viol(
                                "needs_more_on_malformed_header",
                                format!("asks for more bytes ({e:?}) after four continuation length bytes: {}", here()),
                            );
                        }
                        Hdr::Complete { len_len, rem } => {
                            let flen = 1 + len_len + rem;
                            if before >= flen {
                                return viol(
                                    "needs_more_but_frame_complete",
                                    format!(
                                        "asks for more bytes ({e:?}) with {before} bytes buffered for a frame of {flen} (and left {} bytes in the buffer): {}",
                                        buf.len(),
                                        here()
                                    ),
                                );
                            }
                        }
                    }
                    if buf[..] != prefix[off..] {
                        return viol(
                            "buffer_modified_on_need_more",
                            format!("asked for more bytes but changed the buffer ({} -> {} bytes): {}", before, buf.len(), here()),
                        );
                    }
                    ref_end = if buf.is_empty() {
                        RefEnd::Clean
                    } else {
                        RefEnd::NeedMore { left: buf.len() }
                    };
                } else {
                    tr!(rep, "ref end at {off}: malformed {}", dbg(&e, 140));
                    ref_end = RefEnd::Malformed(dbg(&e, 140));
                }
                break;
            }
        }
        if ref_pkts.len() > 100_000 {
            return viol("reference_runaway", "more than 100000 packets".into());
        }
    }
    match &ref_end {
        RefEnd::Clean => rep.probe("ref_clean"),
        RefEnd::NeedMore { .. } => {
            rep.probe("ref_need_more");
            rep.probe("eof_mid_frame");
        }
        RefEnd::Malformed(_) => rep.probe("ref_malformed"),
    }
    if !ref_pkts.is_empty() {
        rep.probe("ref_packets");
    }
    rep.nontrivial = case.chunks.len() >= 2 && (!ref_pkts.is_empty() || matches!(ref_end, RefEnd::Malformed(_)));
    rep.state(
        (D::NAME.len() as u64) << 40
            | (D::V5 as u64) << 36
            | match &ref_end {
                RefEnd::Clean => 0u64,
                RefEnd::NeedMore { .. } => 1,
                RefEnd::Malformed(_) => 2,
            } << 32
            | (ref_pkts.len().min(15) as u64) << 8
            | case.chunks.len().min(255) as u64,
    );

    // ---- the same bytes through the stream wrapper ----
    let mem = Mem::new(prefix.to_vec(), case.chunks, case.pend);
    let mut got: Vec<D::Pkt> = Vec::new();
    let opt = case.opt;
    let r = guarded(|| D::drive(mem, max, opt, &mut got));
    let what = || format!("{} max={max:?} stream {}", D::NAME, hex(prefix, 64));
    let end = match r {
        Err((loc, msg)) => {
            tr!(rep, "wrap PANIC after {} packets {loc}: {msg}", got.len());
            return viol(
                &format!("panic:{loc}"),
                format!("stream wrapper panicked ({msg}) after {} packets: {}", got.len(), what()),
            );
        }
        Ok(e) => e,
    };
    tr!(rep, "wrap packets={} end={}", got.len(), dbg(&end, 160));
    match &end {
        WrapEnd::Eof(_) => rep.probe("wrap_eof"),
        WrapEnd::Error(_) => rep.probe("wrap_error"),
        WrapEnd::Other(_) => rep.probe("wrap_other"),
    }
    if !got.is_empty() {
        rep.probe("wrap_packets");
    }
    let common = got.len().min(ref_pkts.len());
    for i in 0..common {
        if got[i] != ref_pkts[i] {
            return viol(
                "chunking_changes_packets",
                format!(
                    "packet #{i} differs: wrapper {} vs one-shot {}: {}",
                    dbg(&got[i], 120),
                    dbg(&ref_pkts[i], 120),
                    what()
                ),
            );
        }
    }
    if got.len() > ref_pkts.len() {
        return viol(
            "chunking_changes_packets",
            format!(
                "wrapper produced {} packets, one-shot decoding of the same bytes {} (extra: {}): {}",
                got.len(),
                ref_pkts.len(),
                dbg(&got[common], 120),
                what()
            ),
        );
    }
    let ref_malformed = matches!(ref_end, RefEnd::Malformed(_));
    match end {
        WrapEnd::Other(e) => viol(
            "wrapper_unexpected_end",
            format!("wrapper ended with {e}: {}", what()),
        ),
        WrapEnd::Error(e) => {
            if got.len() < ref_pkts.len() || !ref_malformed {
                viol(
                    "chunking_changes_error",
                    format!(
                        "wrapper reported error {e} after {} packets; one-shot decoding gives {} packets and ends {}: {}",
                        got.len(),
                        ref_pkts.len(),
                        match &ref_end {
                            RefEnd::Clean => "cleanly".to_string(),
                            RefEnd::NeedMore { left } => format!("needing more bytes ({left} left)"),
                            RefEnd::Malformed(m) => format!("with {m}"),
                        },
                        what()
                    ),
                )
            } else {
                Outcome::Ok
            }
        }
        WrapEnd::Eof(e) => {
            if got.len() < ref_pkts.len() {
                viol(
                    "chunking_changes_packets",
                    format!(
                        "wrapper reached end of stream ({e}) after {} packets, one-shot decoding gives {} (missing: {}): {}",
                        got.len(),
                        ref_pkts.len(),
                        dbg(&ref_pkts[common], 120),
                        what()
                    ),
                )
            } else if let RefEnd::Malformed(m) = &ref_end {
                viol(
                    "chunking_changes_error",
                    format!(
                        "one-shot decoding ends with {m} after {} packets, the wrapper reported end of stream ({e}) instead: {}",
                        ref_pkts.len(),
                        what()
                    ),
                )
            } else {
                Outcome::Ok
            }
        }
    }
}

pub fn run(_tier: Tier, ch: &mut Choices, rep: &mut RunReport) -> Outcome {
    let dec = ch.pick(4);
    let v5 = dec == 1 || dec == 3;
    let max: Option<usize> = if dec == 1 && ch.coin(1, 10) {
        None
    } else {
        // the two tiny limits reject almost every frame: keep them rarer
        Some(MAXES[ch.weighted(&[1, 1, 2, 3, 3, 3]).unwrap_or(5)])
    };
    let kind = ch.weighted(&[7, 7, 2, 4]).unwrap_or(0);
    let kind_name = ["valid", "mutated", "random", "boundary"][kind];
    rep.probe(match dec {
        0 => "dec_rumqttc_v4",
        1 => "dec_rumqttc_v5",
        2 => "dec_rumqttd_v4",
        _ => "dec_rumqttd_v5",
    });
    let stream: Vec<u8> = match kind {
        0 => {
            rep.probe("valid_stream");
            valid_stream(ch, v5, rep, 1, 8)
        }
        1 => {
            rep.probe("mutated_stream");
            let mut s = valid_stream(ch, v5, rep, 1, 8);
            mutate(ch, &mut s, rep);
            s
        }
        2 => {
            rep.probe("random_stream");
            let n = ch.pick(41) as usize;
            (0..n).map(|_| ch.pick(256) as u8).collect()
        }
        _ => {
            rep.probe("boundary_header_stream");
            boundary_stream(ch, v5, rep)
        }
    };
    // EOF offset: the end, or earlier (prefix delivery)
    let n = stream.len();
    let eof = match ch.weighted(&[7, 2, 1]).unwrap_or(0) {
        0 => n,
        1 => ch.pick(n as u32 + 1) as usize,
        _ => {
            // just before / inside a frame boundary
            let frames = walk_frames(&stream);
            if frames.is_empty() {
                n
            } else {
                let (start, len_len, rem, _) = frames[ch.pick(frames.len() as u32) as usize];
                let end = start + 1 + len_len + rem;
                let c = match ch.pick(4) {
                    0 => start + 1,
                    1 => start + 1 + len_len,
                    2 => end.saturating_sub(1),
                    _ => end,
                };
                c.min(n)
            }
        }
    };
    if eof < n {
        rep.probe("eof_before_stream_end");
    }
    let delivered = &stream[..eof];
    let (chunks, chunk_mode) = chunk_plan(ch, delivered, rep);
    let pend_mode = ch.pick(3);
    let pend: Vec<bool> = (0..=chunks.len())
        .map(|_| match pend_mode {
            0 => false,
            1 => true,
            _ => ch.coin(1, 3),
        })
        .collect();
    if pend.iter().any(|p| *p) {
        rep.probe("pending_injected");
    }
    let opt = WrapOpt {
        readv_mode: ch.pick(3) as u8,
        readv_bits: ch.pick(1 << 16) | (ch.pick(1 << 16) << 16),
        buf_len: *ch.choose(&[1usize, 2, 10, 100]),
    };
    let dec_name = ["rumqttc-v4", "rumqttc-v5", "rumqttd-v4", "rumqttd-v5"][dec as usize];
    rep.config = format!(
        "dec={dec_name} max={max:?} kind={kind_name} stream_len={n} eof={eof} chunking={chunk_mode}({}) pend={pend_mode} readv={}/{}",
        chunks.len(),
        opt.readv_mode,
        opt.buf_len
    );
    tr!(rep, "cfg {}", rep.config.clone());
    tr!(rep, "stream {}", hex(&stream, 200));
    {
        let shown: Vec<usize> = chunks.iter().copied().take(40).collect();
        tr!(
            rep,
            "chunks {shown:?}{} eof_at={eof}",
            if chunks.len() > 40 { format!("..(+{})", chunks.len() - 40) } else { String::new() }
        );
    }
    let case = Case {
        delivered,
        max,
        chunks,
        pend,
        opt,
    };
    match dec {
        0 => check::<RcV4>(case, rep),
        1 => check::<RcV5>(case, rep),
        2 => check::<RdV4>(case, rep),
        _ => check::<RdV5>(case, rep),
    }
}
