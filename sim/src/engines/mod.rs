pub mod logsim;
pub mod routersim;
pub mod streamsim;
pub mod netsim;
pub mod clientsim;
