#!/usr/bin/env python3
"""process_mutants.py <prop> [<prop to check>...]

Confirms the two seeded changes a sub-agent left in /tmp/wt/<prop>/OUT in that scratch
worktree (patch applies; the crate's existing unit tests pass with it; the demonstration
fails with it and passes without it), then runs each through try_mutant.sh against the
quick check of <prop> (and of the further properties named). Prints one summary line per
mutant and writes /tmp/confirm_<prop>_m<n>.txt (VERDICT line) and /tmp/res_<prop>_m<n>.txt.
Nothing under /repo is touched.
"""
import glob, os, re, subprocess, sys

pid = sys.argv[1]
props = [pid] + sys.argv[2:]
wt = f"/tmp/wt/{pid}"
out = f"{wt}/OUT"
env = dict(os.environ, CARGO_NET_OFFLINE="true")


def sh(cmd, cwd=wt, timeout=3000):
    r = subprocess.run(cmd, shell=True, cwd=cwd, env=env, capture_output=True, text=True, timeout=timeout)
    return r.returncode, r.stdout + r.stderr


def crate_of(patch):
    t = open(patch).read()
    crates = set(re.findall(r"^\+\+\+ b/(rumqtt[cd])/", t, re.M))
    return sorted(crates)


for m in ("m1", "m2"):
    patch = f"{out}/{m}.diff"
    if not os.path.exists(patch):
        print(f"{pid}-{m}: no patch")
        continue
    crates = crate_of(patch)
    sh("git checkout -q -- .")
    demo_rs = [p for p in glob.glob(f"{out}/demo_{m}*.rs")]
    demo_diff = [p for p in glob.glob(f"{out}/demo_{m}*.diff")]
    verdict = "?"
    rc, o = sh(f"git apply {patch}")
    if rc != 0:
        verdict = "patch does not apply"
    else:
        lib_with = 0
        for c in crates:
            rc, o = sh(f"cargo test -p {c} --offline --lib")
            lib_with |= rc
        if demo_diff:
            demo = demo_diff[0]
            dc = crate_of(demo)[0]
            rc, o = sh(f"git apply {demo}")
            if rc != 0:
                verdict = "demo diff does not apply on top of the patch"
            else:
                demo_with, o1 = sh(f"cargo test -p {dc} --offline --lib")
                sh("git checkout -q -- .")
                sh(f"git apply {demo}")
                demo_without, o2 = sh(f"cargo test -p {dc} --offline --lib")
                sh("git checkout -q -- .")
                verdict = f"existing_lib_tests_with_patch={lib_with} (0=pass) demo_with_patch={demo_with} (nonzero=fails) demo_without_patch={demo_without} (0=pass)"
        elif demo_rs:
            demo = demo_rs[0]
            txt = open(demo).read()
            mm = re.search(r"(rumqtt[cd])/tests/(\w+)\.rs", txt)
            if mm:
                dc, name = mm.group(1), mm.group(2)
            else:
                dc, name = crates[0], f"demo_{pid.lower()}_{m}"
            os.makedirs(f"{wt}/{dc}/tests", exist_ok=True)
            dest = f"{wt}/{dc}/tests/{name}.rs"
            open(dest, "w").write(txt)
            demo_with, o1 = sh(f"cargo test -p {dc} --offline --test {name}")
            sh("git checkout -q -- .")
            demo_without, o2 = sh(f"cargo test -p {dc} --offline --test {name}")
            verdict = f"existing_lib_tests_with_patch={lib_with} (0=pass) demo_with_patch={demo_with} (nonzero=fails) demo_without_patch={demo_without} (0=pass)"
        else:
            verdict = "no demonstration found"
    sh("git checkout -q -- .")
    open(f"/tmp/confirm_{pid}_{m}.txt", "w").write(f"VERDICT {patch}: {verdict}\n")
    print(f"{pid}-{m} confirm: {verdict}", flush=True)
    rc, o = sh(f"/verif/try_mutant.sh {patch} {' '.join(props)}", cwd="/verif")
    res = "\n".join(l[:300] for l in o.splitlines() if re.match(r"^C\d\d exit=|^VIOLATION|patch does not", l))
    open(f"/tmp/res_{pid}_{m}.txt", "w").write(res + "\n")
    print(f"{pid}-{m} check:\n{res}", flush=True)
