//! logsim: the broker commit log under interleaved appender / readers (C13).
//!
//! Real code: `rumqttd::segments::CommitLog` and `Segment`. No stub.
//! Reference: a plain vector of all appended entries. Which entries are
//! retained is *observed* through public accessors that do not involve
//! `readv` (`append`'s return value gives each entry's segment,
//! `_head_and_tail()` gives the oldest retained segment), so the oracle does
//! not encode the rotation rule itself, only what the statement says.

use crate::choices::Choices;
use crate::core::{guarded, Outcome, RunReport, Tier, Violation};
use crate::tr;
use rumqttd::verif::{CommitLog, Position, Storage};

#[derive(Clone, Debug)]
struct Ent {
    id: u64,
    size: usize,
}

impl Storage for Ent {
    fn size(&self) -> usize {
        self.size
    }
}

#[derive(Clone, Copy, Debug)]
struct Cur {
    c: (u64, u64),
    /// Global index of the entry this cursor stands in front of.
    g: u64,
    kind: u8, // 0 tail, 1 tag, 2 continuation
}

fn viol(class: &str, message: String) -> Outcome {
    Outcome::Violation(Violation {
        property: "C13",
        class: class.to_string(),
        message,
    })
}

pub fn run(_tier: Tier, ch: &mut Choices, rep: &mut RunReport) -> Outcome {
    let seg_size = *ch.choose(&[1024usize, 1024, 1500, 2048, 4096]);
    let max_segs = ch.range(1, 5) as usize;
    let n_readers = ch.range(1, 4) as usize;
    let n_ops = *ch.choose(&[20u32, 60, 150, 300, 600]);
    // entry size classes enabled in this run: tiny / medium / comparable / larger
    let mut size_w = [0u32; 4];
    for w in size_w.iter_mut() {
        *w = ch.pick(4);
    }
    if size_w.iter().all(|w| *w == 0) {
        size_w[1] = 1;
    }
    let w_append = ch.range(1, 6);
    let w_read = ch.range(1, 6);
    let w_tail = ch.range(0, 2);
    let w_fab = ch.range(0, 2);
    rep.config = format!(
        "seg_size={seg_size} max_segs={max_segs} readers={n_readers} ops={n_ops} sizes={size_w:?} w=[{w_append},{w_read},{w_tail},{w_fab}]"
    );
    tr!(rep, "cfg {}", rep.config.clone());

    let mut log: CommitLog<Ent> = match guarded(|| CommitLog::new(seg_size, max_segs)) {
        Ok(Ok(l)) => l,
        Ok(Err(e)) => return viol("new_failed", format!("CommitLog::new failed: {e}")),
        Err((loc, msg)) => return viol(&format!("panic:{loc}"), msg),
    };

    // reference: entry g -> (id, segment index as reported by append)
    let mut ents: Vec<(u64, u64)> = Vec::new();
    let mut readers: Vec<Vec<Cur>> = vec![vec![Cur { c: (0, 0), g: 0, kind: 0 }]; n_readers];
    let mut next_id = 1000u64;
    let mut stale_reads = 0u32;
    let mut boundary_reads = 0u32;
    let mut evictions = 0u32;
    let mut last_head = 0u64;

    for step in 0..n_ops {
        let op = ch.weighted(&[w_append, w_read, w_tail, w_fab]).unwrap_or(0);
        match op {
            0 => {
                let class = ch.weighted(&size_w).unwrap_or(1);
                let size = match class {
                    0 => ch.range(1, 40) as usize,
                    1 => ch.range(100, 600) as usize,
                    2 => (seg_size / 2) + ch.pick((seg_size / 2) as u32 + 1) as usize,
                    _ => seg_size + ch.pick(seg_size as u32) as usize,
                };
                let burst = if ch.coin(1, 8) { ch.range(2, 30) } else { 1 };
                for _ in 0..burst {
                    let id = next_id;
                    next_id += 1;
                    let before_count = log.memory_segments_count();
                    let r = guarded(|| log.append(Ent { id, size }));
                    let (seg, abs_after) = match r {
                        Ok(v) => v,
                        Err((loc, msg)) => return viol(&format!("panic:{loc}"), msg),
                    };
                    let g = ents.len() as u64;
                    ents.push((id, seg));
                    tr!(rep, "{step} append id={id} size={size} -> ({seg},{abs_after})");
                    if abs_after != g + 1 {
                        return viol(
                            "append_offset",
                            format!("append #{g} returned offset {abs_after}, expected {}", g + 1),
                        );
                    }
                    let (tail, tail_off) = log.next_offset();
                    if tail != seg || tail_off != g + 1 {
                        return viol(
                            "tail_after_append",
                            format!("next_offset ({tail},{tail_off}) after append #{g} in segment {seg}"),
                        );
                    }
                    let count = log.memory_segments_count();
                    if count > max_segs {
                        return viol(
                            "segment_count",
                            format!("{count} segments in memory, limit {max_segs}"),
                        );
                    }
                    let (head, _) = log._head_and_tail();
                    if head < last_head {
                        return viol("head_went_back", format!("head {last_head} -> {head}"));
                    }
                    if head > last_head {
                        evictions += 1;
                        rep.probe("eviction");
                        if before_count < max_segs && head > last_head {
                            // not a statement violation; recorded only as a probe
                            rep.probe("eviction_below_limit");
                        }
                        last_head = head;
                    }
                    if seg > 0 && g > 0 && ents[(g - 1) as usize].1 != seg {
                        rep.probe("segment_rotation");
                    }
                }
            }
            1 => {
                let r = ch.pick(n_readers as u32) as usize;
                let cursors = &readers[r];
                // prefer the most recent cursor (usually a continuation)
                let ci = if ch.coin(2, 3) {
                    cursors.len() - 1
                } else {
                    ch.pick(cursors.len() as u32) as usize
                };
                let cur = cursors[ci];
                let len = *ch.choose(&[0u64, 1, 1, 2, 3, 5, 10, 50, 100, 1000, 100_000]);
                let mut out: Vec<(Ent, (u64, u64))> = Vec::new();
                let res = guarded(|| log.readv(cur.c, len, &mut out));
                let pos = match res {
                    Ok(Ok(p)) => p,
                    Ok(Err(e)) => return viol("readv_error", format!("readv returned Err: {e}")),
                    Err((loc, msg)) => return viol(&format!("panic:{loc}"), msg),
                };
                let (head, _tail) = log._head_and_tail();
                let total = ents.len() as u64;
                // oldest retained entry = first whose segment (as reported by append) >= head
                let head_g = ents.partition_point(|(_, seg)| *seg < head) as u64;
                let start_g = cur.g.max(head_g);
                if cur.g < head_g {
                    stale_reads += 1;
                    rep.probe("stale_cursor_read");
                }
                let want = (total.saturating_sub(start_g)).min(len);
                tr!(
                    rep,
                    "{step} read r{r} cursor=({},{}) kind={} len={len} -> n={} pos={pos:?}",
                    cur.c.0,
                    cur.c.1,
                    cur.kind,
                    out.len()
                );
                if out.len() as u64 != want {
                    let class = if (out.len() as u64) < want {
                        "read_short"
                    } else {
                        "read_long"
                    };
                    return viol(
                        class,
                        format!(
                            "read from cursor {:?} (entry #{}, oldest retained #{head_g}, total {total}) len {len}: got {} entries, expected {want}",
                            cur.c, cur.g, out.len()
                        ),
                    );
                }
                for (k, (e, tag)) in out.iter().enumerate() {
                    let g = start_g + k as u64;
                    let (id, seg) = ents[g as usize];
                    if e.id != id {
                        let class = if ents.iter().position(|x| x.0 == e.id).map(|p| (p as u64) < g).unwrap_or(false) {
                            "read_repeat_or_old"
                        } else {
                            "read_gap"
                        };
                        return viol(
                            class,
                            format!(
                                "read from {:?}: position {k} holds id {} expected id {id} (entry #{g})",
                                cur.c, e.id
                            ),
                        );
                    }
                    if *tag != (seg, g) {
                        return viol(
                            "entry_tag",
                            format!("entry #{g} tagged {tag:?}, its own offset is ({seg},{g})"),
                        );
                    }
                }
                let g_end = start_g + out.len() as u64;
                let (done, end) = match pos {
                    Position::Next { end, .. } => (false, end),
                    Position::Done { end, .. } => (true, end),
                };
                let expect_done = g_end >= total;
                if done != expect_done {
                    return viol(
                        if done { "done_too_early" } else { "done_missing" },
                        format!(
                            "read from {:?} len {len}: reported caught-up={done} but {} retained entries remain after what was returned",
                            cur.c,
                            total - g_end.min(total)
                        ),
                    );
                }
                if !out.is_empty() {
                    let first_seg = out[0].1 .0;
                    let last_seg = out[out.len() - 1].1 .0;
                    if first_seg != last_seg {
                        boundary_reads += 1;
                        rep.probe("read_across_segments");
                    }
                }
                // new cursors for this reader: continuation, and a tag or two
                let rs = &mut readers[r];
                rs.push(Cur { c: end, g: g_end, kind: 2 });
                if !out.is_empty() && ch.coin(1, 3) {
                    let k = ch.pick(out.len() as u32) as usize;
                    rs.push(Cur { c: out[k].1, g: start_g + k as u64, kind: 1 });
                }
                if rs.len() > 12 {
                    // keep the oldest (stale) one and the newest ones
                    rs.drain(1..rs.len() - 8);
                }
            }
            2 => {
                let r = ch.pick(n_readers as u32) as usize;
                let c = log.next_offset();
                tr!(rep, "{step} tail r{r} -> {c:?}");
                readers[r].push(Cur { c, g: ents.len() as u64, kind: 0 });
            }
            _ => {
                // fabricated cursor: only "does not panic" and "count within len"
                let (head, tail) = log._head_and_tail();
                let total = ents.len() as u64;
                let s = match ch.pick(5) {
                    0 => 0,
                    1 => head.saturating_sub(1),
                    2 => head + ch.pick((tail - head + 1) as u32) as u64,
                    3 => tail + 1 + ch.pick(3) as u64,
                    _ => ch.pick(10) as u64,
                };
                let o = match ch.pick(5) {
                    0 => 0,
                    1 => total,
                    2 => total + 1 + ch.pick(1000) as u64,
                    3 => ch.pick(total as u32 + 1) as u64,
                    _ => u64::MAX - ch.pick(3) as u64,
                };
                let len = *ch.choose(&[0u64, 1, 7, 1000, 100_000]);
                let mut out: Vec<(Ent, (u64, u64))> = Vec::new();
                let res = guarded(|| log.readv((s, o), len, &mut out));
                tr!(rep, "{step} fabricated ({s},{o}) len={len} -> n={}", out.len());
                rep.probe("fabricated_cursor_read");
                match res {
                    Ok(_) => {}
                    Err((loc, msg)) => {
                        return viol(
                            &format!("panic:{loc}"),
                            format!("readv(({s},{o}), {len}) panicked: {msg}"),
                        )
                    }
                }
                if out.len() as u64 > len {
                    return viol(
                        "read_long",
                        format!("fabricated cursor read returned {} > len {len}", out.len()),
                    );
                }
            }
        }
        let (head, tail) = log._head_and_tail();
        rep.state(
            (log.memory_segments_count() as u64) << 32
                | ((tail - head) << 16)
                | (ents.len() as u64 & 0xff) << 8
                | (step as u64 & 0x7),
        );
    }
    rep.nontrivial = evictions > 0 && (stale_reads > 0 || boundary_reads > 0);
    Outcome::Ok
}
