//! verifsim: deterministic simulation with fault injection for rumqtt.
//!
//!   verifsim run <property> <quick|thorough>
//!   verifsim replay <file> [--verify]
//!   verifsim hashes <property> <quick|thorough> <n> <workers>   (determinism self-test)
//!   verifsim list

mod choices;
mod core;
mod engines;
mod props;

use crate::choices::Choices;
use crate::core::*;
use std::time::Duration;

const VERIF_DIR: &str = "/verif";

fn env_u64(name: &str, default: u64) -> u64 {
    std::env::var(name)
        .ok()
        .and_then(|v| v.trim().parse::<u64>().ok())
        .unwrap_or(default)
}

fn main() {
    install_panic_hook();
    let args: Vec<String> = std::env::args().collect();
    let code = match args.get(1).map(|s| s.as_str()) {
        Some("run") => cmd_run(&args[2..]),
        Some("replay") => cmd_replay(&args[2..]),
        Some("resave") => cmd_resave(&args[2..]),
        Some("hashes") => cmd_hashes(&args[2..]),
        Some("selfreplay") => cmd_selfreplay(&args[2..]),
        Some("tally") => cmd_tally(&args[2..]),
        Some("trace") => cmd_trace(&args[2..]),
        Some("list") => {
            for p in props::all() {
                println!("{} {} {}", p.id, p.engine, p.level);
            }
            0
        }
        _ => {
            eprintln!("usage: verifsim run <prop> <quick|thorough> | replay <file> | hashes <prop> <tier> <n> <workers> | list");
            2
        }
    };
    std::process::exit(code);
}

fn parse_tier(s: Option<&String>) -> Option<Tier> {
    match s.map(|s| s.as_str()) {
        Some("quick") => Some(Tier::Quick),
        Some("thorough") => Some(Tier::Thorough),
        _ => None,
    }
}

fn cmd_hashes(args: &[String]) -> i32 {
    let Some(spec) = args.first().and_then(|p| props::find(p)) else {
        eprintln!("unknown property");
        return 2;
    };
    let Some(tier) = parse_tier(args.get(1)) else {
        return 2;
    };
    let n: u64 = args.get(2).and_then(|s| s.parse().ok()).unwrap_or(300);
    let workers: usize = args.get(3).and_then(|s| s.parse().ok()).unwrap_or(1);
    let seed = env_u64("VERIF_SEED", 1);
    let f = props::runner(spec.id, tier);
    let out = std::sync::Mutex::new(vec![0u64; n as usize]);
    let next = std::sync::atomic::AtomicU64::new(0);
    std::thread::scope(|s| {
        for _ in 0..workers {
            s.spawn(|| loop {
                let i = next.fetch_add(1, std::sync::atomic::Ordering::SeqCst);
                if i >= n {
                    break;
                }
                let mut ch = Choices::generate(choices::mix(seed, i));
                let mut rep = RunReport::new(false);
                let _ = run_one(&*f, &mut ch, &mut rep);
                out.lock().unwrap()[i as usize] = rep.hash;
            });
        }
    });
    for (i, h) in out.lock().unwrap().iter().enumerate() {
        println!("{i} {h:016x}");
    }
    0
}

fn write_replay(
    spec: &props::PropSpec,
    tier: Tier,
    base_seed: u64,
    found_index: u64,
    run_seed: u64,
    log: &[u32],
    v: &Violation,
    shrink_execs: u32,
    dir: &str,
) -> Result<(String, u64), String> {
    // decoded trace of the minimised run
    let f = props::runner(spec.id, tier);
    let mut ch = Choices::replay(run_seed, log.to_vec());
    let mut rep = RunReport::new(true);
    let out = run_one(&*f, &mut ch, &mut rep)?;
    let (class, message) = match out {
        Outcome::Violation(v2) => (v2.class, v2.message),
        _ => return Err("minimised log no longer violates".into()),
    };
    if class != v.class {
        return Err(format!("minimised log changed class {} -> {class}", v.class));
    }
    let name = format!("{}-{}-{:016x}.json", spec.id, base_seed, rep.hash);
    let path = format!("{dir}/{name}");
    let doc = serde_json::json!({
        "property": spec.id,
        "engine": spec.engine,
        "harness_version": HARNESS_VERSION,
        "tier": tier.name(),
        "base_seed": base_seed,
        "run_index": found_index,
        "run_seed": run_seed,
        "class": class,
        "message": message,
        "trace_hash": format!("{:016x}", rep.hash),
        "config": rep.config,
        "choices": ch.log,
        "shrink_executions": shrink_execs,
        "trace": rep.lines.unwrap_or_default(),
    });
    std::fs::create_dir_all(dir).map_err(|e| e.to_string())?;
    std::fs::write(&path, serde_json::to_string_pretty(&doc).unwrap()).map_err(|e| e.to_string())?;
    Ok((path, rep.hash))
}

struct ReplayOutcome {
    property: String,
    class_expected: String,
    class_got: Option<String>,
    message: String,
    hash_expected: String,
    hash_got: String,
}

/// Replay of a `hang` file: the run is regenerated from its seed on a thread of
/// its own; not returning within the limit reproduces the finding.
fn replay_hang(doc: &serde_json::Value, path: &str) -> i32 {
    let Some(spec) = doc["property"].as_str().and_then(props::find) else {
        return 2;
    };
    let tier = match doc["tier"].as_str() {
        Some("thorough") => Tier::Thorough,
        _ => Tier::Quick,
    };
    let run_seed = doc["run_seed"].as_u64().unwrap_or(0);
    let limit = Duration::from_secs(env_u64("VERIF_HANG_SECS", 150).min(60));
    let (tx, rx) = std::sync::mpsc::channel();
    let id = spec.id;
    std::thread::Builder::new()
        .stack_size(16 << 20)
        .spawn(move || {
            let f = props::runner(id, tier);
            let mut ch = Choices::generate(run_seed);
            let mut rep = RunReport::new(false);
            let out = run_one(&*f, &mut ch, &mut rep);
            let _ = tx.send(match out {
                Ok(Outcome::Violation(v)) => format!("violation {}", v.class),
                Ok(_) => "ok".to_string(),
                Err(e) => format!("error {e}"),
            });
        })
        .expect("spawn");
    match rx.recv_timeout(limit) {
        Err(_) => {
            println!(
                "replay property={} expected_class=halt:run_does_not_return got_class=halt:run_does_not_return (no return within {} s)",
                spec.id,
                limit.as_secs()
            );
            println!("VIOLATION property={} replay={}", spec.id, path);
            std::process::exit(1);
        }
        Ok(what) => {
            println!("replay property={} expected_class=halt:run_does_not_return got_class=- (the run returned: {what})", spec.id);
            0
        }
    }
}

fn do_replay(path: &str) -> Result<ReplayOutcome, String> {
    let s = std::fs::read_to_string(path).map_err(|e| format!("{path}: {e}"))?;
    let doc: serde_json::Value = serde_json::from_str(&s).map_err(|e| e.to_string())?;
    let prop = doc["property"].as_str().ok_or("no property")?;
    let spec = props::find(prop).ok_or("unknown property in replay file")?;
    let tier = match doc["tier"].as_str() {
        Some("thorough") => Tier::Thorough,
        _ => Tier::Quick,
    };
    let run_seed = doc["run_seed"].as_u64().ok_or("no run_seed")?;
    let choices: Vec<u32> = doc["choices"]
        .as_array()
        .ok_or("no choices")?
        .iter()
        .map(|v| v.as_u64().unwrap_or(0) as u32)
        .collect();
    let f = props::runner(spec.id, tier);
    let mut ch = Choices::replay(run_seed, choices);
    let mut rep = RunReport::new(true);
    let out = run_one(&*f, &mut ch, &mut rep)?;
    let (class_got, message) = match out {
        Outcome::Violation(v) => (Some(v.class), v.message),
        Outcome::Ok => (None, "no violation".into()),
        Outcome::Foreign(w) => (None, format!("foreign abort: {w}")),
    };
    if std::env::var("VERIF_TRACE").is_ok() {
        for l in rep.lines.unwrap_or_default() {
            println!("  {l}");
        }
    }
    Ok(ReplayOutcome {
        property: prop.to_string(),
        class_expected: doc["class"].as_str().unwrap_or("").to_string(),
        class_got,
        message,
        hash_expected: doc["trace_hash"].as_str().unwrap_or("").to_string(),
        hash_got: format!("{:016x}", rep.hash),
    })
}

/// `resave <in> <out>`: re-executes the choices of a replay file and writes
/// a file that records what the run shows NOW (class, message, trace, hash).
/// Maintenance helper for replay files that predate a harness change.
fn cmd_resave(args: &[String]) -> i32 {
    let (Some(inp), Some(outp)) = (args.first(), args.get(1)) else {
        return 2;
    };
    let s = match std::fs::read_to_string(inp) {
        Ok(s) => s,
        Err(e) => {
            eprintln!("{inp}: {e}");
            return 2;
        }
    };
    let mut doc: serde_json::Value = match serde_json::from_str(&s) {
        Ok(d) => d,
        Err(e) => {
            eprintln!("{e}");
            return 2;
        }
    };
    let Some(spec) = doc["property"].as_str().and_then(props::find) else {
        return 2;
    };
    let tier = match doc["tier"].as_str() {
        Some("thorough") => Tier::Thorough,
        _ => Tier::Quick,
    };
    let run_seed = doc["run_seed"].as_u64().unwrap_or(0);
    let choices: Vec<u32> = doc["choices"]
        .as_array()
        .map(|a| a.iter().map(|v| v.as_u64().unwrap_or(0) as u32).collect())
        .unwrap_or_default();
    let f = props::runner(spec.id, tier);
    let mut ch = Choices::replay(run_seed, choices);
    let mut rep = RunReport::new(true);
    match run_one(&*f, &mut ch, &mut rep) {
        Ok(Outcome::Violation(v)) => {
            doc["class"] = v.class.clone().into();
            doc["message"] = v.message.into();
            doc["trace_hash"] = format!("{:016x}", rep.hash).into();
            doc["harness_version"] = HARNESS_VERSION.into();
            doc["config"] = rep.config.clone().into();
            doc["choices"] = ch.log.clone().into();
            doc["trace"] = rep.lines.unwrap_or_default().into();
            if std::fs::write(outp, serde_json::to_string_pretty(&doc).unwrap()).is_err() {
                return 2;
            }
            println!("resaved {outp} class={}", v.class);
            0
        }
        Ok(_) => {
            eprintln!("no violation: nothing written");
            1
        }
        Err(e) => {
            eprintln!("{e}");
            2
        }
    }
}

/// exit 1: violation reproduced (same class); 0: no violation; 2: diverged.
fn cmd_replay(args: &[String]) -> i32 {
    let Some(path) = args.first() else {
        return 2;
    };
    let verify = args.iter().any(|a| a == "--verify");
    if let Ok(s) = std::fs::read_to_string(path) {
        if let Ok(doc) = serde_json::from_str::<serde_json::Value>(&s) {
            if doc["hang"].as_bool() == Some(true) {
                return replay_hang(&doc, path);
            }
        }
    }
    match do_replay(path) {
        Err(e) => {
            eprintln!("replay error: {e}");
            2
        }
        Ok(r) => {
            println!(
                "replay property={} expected_class={} got_class={} hash_expected={} hash_got={}",
                r.property,
                r.class_expected,
                r.class_got.clone().unwrap_or_else(|| "-".into()),
                r.hash_expected,
                r.hash_got
            );
            println!("  {}", r.message);
            match r.class_got {
                Some(c) if c == r.class_expected => {
                    if verify && r.hash_got != r.hash_expected {
                        eprintln!("replay diverged: trace hash differs");
                        return 2;
                    }
                    if !verify {
                        println!("VIOLATION property={} replay={}", r.property, path);
                    }
                    1
                }
                Some(_) => 2,
                None => {
                    if verify {
                        2
                    } else {
                        0
                    }
                }
            }
        }
    }
}

fn cmd_run(args: &[String]) -> i32 {
    let Some(spec) = args.first().and_then(|p| props::find(p)) else {
        eprintln!("unknown property");
        return 2;
    };
    let Some(tier) = parse_tier(args.get(1)) else {
        eprintln!("tier must be quick or thorough");
        return 2;
    };
    let seed = env_u64("VERIF_SEED", 1);
    let workers = env_u64("VERIF_WORKERS", 16) as usize;
    let runs = env_u64(
        "VERIF_RUNS",
        match tier {
            Tier::Quick => spec.runs_quick,
            Tier::Thorough => spec.runs_thorough,
        },
    );
    let wall_cap = Duration::from_secs(env_u64(
        "VERIF_WALL_CAP",
        match tier {
            Tier::Quick => 150,
            Tier::Thorough => 900,
        },
    ));
    let known_all = load_known(&std::env::var("VERIF_KNOWN_FILE").unwrap_or(format!("{VERIF_DIR}/KNOWN_FINDINGS.txt")));
    let known: Vec<KnownFinding> = known_all
        .into_iter()
        .filter(|k| k.property == spec.id)
        .collect();
    let replay_dir = std::env::var("VERIF_REPLAY_DIR").unwrap_or(format!("{VERIF_DIR}/replays"));
    let evidence_dir =
        std::env::var("VERIF_EVIDENCE_DIR").unwrap_or(format!("{VERIF_DIR}/evidence"));

    println!(
        "verifsim property={} engine={} tier={} seed={} runs={} workers={}",
        spec.id,
        spec.engine,
        tier.name(),
        seed,
        runs,
        workers
    );

    // Demonstrate each listed open finding from its committed replay file.
    let mut known_demonstrated = Vec::new();
    for k in &known {
        let path = format!("{VERIF_DIR}/replays/known/{}-{}.json", k.property, sanitize(&k.sig));
        let status = match do_replay(&path) {
            Ok(r) if r.class_got.as_deref() == Some(k.sig.as_str()) => "reproduced",
            Ok(_) => "not-reproduced",
            Err(_) => "no-replay-file",
        };
        println!("KNOWN-FINDING: property={} sig={} [{}] {}", k.property, k.sig, status, k.text);
        known_demonstrated.push(serde_json::json!({"sig": k.sig, "status": status, "text": k.text}));
    }

    let f = props::runner(spec.id, tier);
    // a run that does not come back: the code under test blocks or spins for ever.
    // Reported from the monitor thread, which then ends the process (the stuck
    // worker cannot be joined).
    let hang_after = Duration::from_secs(env_u64("VERIF_HANG_SECS", 150));
    let (prop_id, engine, tier_name) = (spec.id, spec.engine, tier.name());
    let rdir = replay_dir.clone();
    let on_hang = move |index: u64, run_seed: u64| {
        let name = format!("{prop_id}-{seed}-hang-{run_seed:016x}.json");
        let path = format!("{rdir}/{name}");
        let doc = serde_json::json!({
            "property": prop_id,
            "engine": engine,
            "harness_version": HARNESS_VERSION,
            "tier": tier_name,
            "base_seed": seed,
            "run_index": index,
            "run_seed": run_seed,
            "class": "halt:run_does_not_return",
            "message": format!("run {index} (seed {run_seed}) has not returned after {} s of wall-clock time: the code under test blocks or loops for ever", hang_after.as_secs()),
            "hang": true,
            "choices": [],
            "trace_hash": "",
            "trace": [],
        });
        let _ = std::fs::create_dir_all(&rdir);
        let _ = std::fs::write(&path, serde_json::to_string_pretty(&doc).unwrap());
        println!(
            "violation in run {index} (seed {run_seed}): [halt:run_does_not_return] the run has not returned after {} s: the code under test blocks or loops for ever",
            hang_after.as_secs()
        );
        println!("VIOLATION property={prop_id} replay={path}");
        std::process::exit(1);
    };
    let cfg = BatchCfg {
        property: spec.id,
        seed,
        runs,
        workers,
        wall_cap,
        known: &known,
        samples: 3,
        on_hang: Some(&on_hang),
        hang_after,
    };
    let res = run_batch(&cfg, &*f);
    let wall_s = res.wall.as_secs_f64();

    if let Some(e) = &res.harness_error {
        eprintln!("HARNESS ERROR: {e}");
        return 2;
    }
    if res.found.is_none() {
        if let Some(e) = &res.nondeterminism {
            eprintln!("HARNESS ERROR: {e} (no verdict: identical schedules gave different traces)");
            return 2;
        }
    }

    let mut violations = 0;
    let mut exit = 0;
    let mut violation_doc = serde_json::Value::Null;
    if let Some(found) = &res.found {
        violations = 1;
        println!(
            "violation in run {} (seed {}): [{}] {}",
            found.index, found.run_seed, found.violation.class, found.violation.message
        );
        let sh = shrink(
            &*f,
            found.run_seed,
            found.log.clone(),
            spec.id,
            &found.violation.class,
        );
        println!(
            "minimised choice sequence {} -> {} values in {} executions",
            found.log.len(),
            sh.log.len(),
            sh.executions
        );
        match write_replay(
            spec,
            tier,
            seed,
            found.index,
            found.run_seed,
            &sh.log,
            &found.violation,
            sh.executions,
            &replay_dir,
        ) {
            Ok((path, _hash)) => {
                // replay in a fresh process before reporting; when the code
                // under test is itself nondeterministic (the recheck says so)
                // the same class must reproduce at least once in a few tries
                let exe = std::env::current_exe().unwrap();
                let tries = if res.nondeterminism.is_some() { 20 } else { 1 };
                let mut st = Err(std::io::Error::other("not run"));
                for _ in 0..tries {
                    let mut cmd = std::process::Command::new(&exe);
                    cmd.args(["replay", &path]);
                    if res.nondeterminism.is_none() {
                        cmd.arg("--verify");
                    }
                    st = cmd.stdout(std::process::Stdio::null()).status();
                    if matches!(&st, Ok(s) if s.code() == Some(1)) {
                        break;
                    }
                }
                if let Some(n) = &res.nondeterminism {
                    println!("note: {n}: the code under test behaves differently on identical schedules; the replay file reproduces the violation class but not necessarily the same trace");
                }
                match st {
                    Ok(s) if s.code() == Some(1) => {
                        println!("VIOLATION property={} replay={}", spec.id, path);
                        exit = 1;
                        violation_doc = serde_json::json!({
                            "class": found.violation.class,
                            "message": found.violation.message,
                            "replay": path,
                            "choices_before": found.log.len(),
                            "choices_after": sh.log.len(),
                        });
                    }
                    other => {
                        eprintln!("HARNESS ERROR: replay diverged in a fresh process ({other:?}) for {path}");
                        return 2;
                    }
                }
            }
            Err(e) => {
                eprintln!("HARNESS ERROR: cannot write replay: {e}");
                return 2;
            }
        }
    }

    let agg = &res.agg;
    let foreign_frac = if agg.runs > 0 {
        agg.foreign as f64 / agg.runs as f64
    } else {
        0.0
    };
    let mut zero_probes = Vec::new();
    for p in spec.expected_probes {
        if agg.probes.get(p).copied().unwrap_or(0) == 0 {
            zero_probes.push(*p);
        }
    }
    if !zero_probes.is_empty() {
        println!("warning: probes never hit in this batch: {zero_probes:?}");
    }
    let evidence = serde_json::json!({
        "property_id": spec.id,
        "tier": tier.name(),
        "seed": seed,
        "level": spec.level,
        "coverage": {
            "evaluations": agg.runs,
            "distinct_nontrivial": agg.nontrivial_hashes.len(),
            "rule": spec.rule,
            "samples": agg.samples,
            "distinct_traces": agg.all_hashes.len(),
            "distinct_states": agg.states.len(),
            "state_measure": spec.state_measure,
            "sim_steps": agg.steps,
            "sim_time_s": agg.sim_time_ms as f64 / 1000.0,
            "runs_per_hour": if wall_s > 0.0 { (agg.runs as f64 / wall_s * 3600.0) as u64 } else { 0 },
            "fault_counts": agg.faults,
            "probes": agg.probes,
            "probes_never_hit": zero_probes,
            "crash_points_enumerated": agg.crash_points,
            "runs_aborted_foreign": agg.foreign,
            "runs_aborted_foreign_fraction": foreign_frac,
            "foreign_samples": agg.foreign_samples,
            "known_findings_hit": agg.known_hits,
            "known_findings_listed": known_demonstrated,
            "real_components": spec.real,
            "stubbed_components": spec.stubbed,
            "determinism_recheck": if res.determinism_ok { "ok" } else { "FAILED" },
            "max_choices_per_run": agg.max_choices,
            "wall_capped_at_run": res.capped_at,
            "workers": workers,
            "violation": violation_doc,
            "exhaustive": false,
        },
        "assumptions": spec.assumptions,
        "wall_s": wall_s,
        "violations": violations,
    });
    if let Err(e) = std::fs::create_dir_all(&evidence_dir)
        .and_then(|_| {
            std::fs::write(
                format!("{evidence_dir}/{}.json", spec.id),
                serde_json::to_string_pretty(&evidence).unwrap(),
            )
        })
    {
        eprintln!("HARNESS ERROR: cannot write evidence: {e}");
        return 2;
    }
    println!(
        "done: runs={} distinct_traces={} nontrivial_distinct={} states={} foreign={} known_hits={:?} wall={:.1}s{}",
        agg.runs,
        agg.all_hashes.len(),
        agg.nontrivial_hashes.len(),
        agg.states.len(),
        agg.foreign,
        agg.known_hits,
        wall_s,
        res.capped_at.map(|n| format!(" (wall cap hit after {n} runs)")).unwrap_or_default()
    );
    println!("faults: {:?}", agg.faults);
    println!("probes: {:?}", agg.probes);
    exit
}

fn sanitize(s: &str) -> String {
    s.chars()
        .map(|c| if c.is_ascii_alphanumeric() || c == '-' || c == '_' { c } else { '_' })
        .collect()
}

/// Debug aid: generate run with the given run seed, then replay its own log; print both hashes.
pub fn cmd_selfreplay(args: &[String]) -> i32 {
    let Some(spec) = args.first().and_then(|p| props::find(p)) else { return 2 };
    let seed: u64 = args.get(1).and_then(|s| s.parse().ok()).unwrap_or(1);
    let f = props::runner(spec.id, Tier::Quick);
    let mut ch = Choices::generate(seed);
    let mut rep = RunReport::new(true);
    let o1 = run_one(&*f, &mut ch, &mut rep);
    let log = ch.log.clone();
    let mut ch2 = Choices::replay(seed, log.clone());
    let mut rep2 = RunReport::new(true);
    let o2 = run_one(&*f, &mut ch2, &mut rep2);
    let d = |o: &Result<Outcome, String>| match o { Ok(Outcome::Violation(v)) => v.class.clone(), Ok(Outcome::Ok) => "ok".into(), Ok(Outcome::Foreign(x)) => format!("foreign {x}"), Err(e) => e.clone() };
    println!("gen: {:016x} {} choices {}", rep.hash, d(&o1), log.len());
    println!("rep: {:016x} {} choices {}", rep2.hash, d(&o2), ch2.log.len());
    let (a, b) = (rep.lines.unwrap_or_default(), rep2.lines.unwrap_or_default());
    for i in 0..a.len().min(b.len()) {
        if a[i] != b[i] {
            println!("first difference at line {i}:\n  gen: {}\n  rep: {}", a[i], b[i]);
            for j in i.saturating_sub(5)..i { println!("  ctx: {}", a[j]); }
            break;
        }
    }
    0
}

/// HELPER (not part of the registered checks): runs `n` seeds of a property
/// without stopping at the first violation and prints how often each
/// violation class / foreign abort occurs, with one example run index each.
///   verifsim tally <prop> <tier> <n> <workers> [first_index]
pub fn cmd_tally(args: &[String]) -> i32 {
    let Some(spec) = args.first().and_then(|p| props::find(p)) else { return 2 };
    let Some(tier) = parse_tier(args.get(1)) else { return 2 };
    let n: u64 = args.get(2).and_then(|s| s.parse().ok()).unwrap_or(1000);
    let workers: usize = args.get(3).and_then(|s| s.parse().ok()).unwrap_or(16);
    let first: u64 = args.get(4).and_then(|s| s.parse().ok()).unwrap_or(0);
    let seed = env_u64("VERIF_SEED", 1);
    let f = props::runner(spec.id, tier);
    let next = std::sync::atomic::AtomicU64::new(first);
    let tally: std::sync::Mutex<std::collections::BTreeMap<String, (u64, u64, String)>> = Default::default();
    let totals = std::sync::Mutex::new((0u64, 0u64, 0u64, 0u64));
    let slowest = std::sync::Mutex::new((0u64, 0u64));
    let start = std::time::Instant::now();
    std::thread::scope(|s| {
        for _ in 0..workers {
            s.spawn(|| loop {
                let i = next.fetch_add(1, std::sync::atomic::Ordering::SeqCst);
                if i >= first + n { break; }
                let mut ch = Choices::generate(choices::mix(seed, i));
                let mut rep = RunReport::new(false);
                let t_run = std::time::Instant::now();
                let key = match run_one(&*f, &mut ch, &mut rep) {
                    Ok(Outcome::Ok) => None,
                    Ok(Outcome::Violation(v)) => Some((v.class, v.message)),
                    Ok(Outcome::Foreign(w)) => Some((format!("FOREIGN {w}"), String::new())),
                    Err(e) => Some((format!("HARNESS {e}"), String::new())),
                };
                {
                    let mut t = totals.lock().unwrap();
                    t.0 += 1; t.1 += rep.sim_time_ms; t.2 += rep.crash_points; t.3 += rep.nontrivial as u64;
                }
                {
                    let el = t_run.elapsed().as_micros() as u64;
                    let mut sl = slowest.lock().unwrap();
                    if el > sl.0 { *sl = (el, i); }
                }
                if let Some((k, m)) = key {
                    let mut t = tally.lock().unwrap();
                    let e = t.entry(k).or_insert((0, i, m));
                    e.0 += 1;
                    if i < e.1 { e.1 = i; }
                }
            });
        }
    });
    let t = totals.lock().unwrap();
    let wall = start.elapsed().as_secs_f64();
    println!("tally {} runs={} wall={:.1}s runs/s={:.0} sim_s/run={:.2} crash_points={} nontrivial={}", spec.id, t.0, wall, t.0 as f64 / wall, t.1 as f64 / 1000.0 / t.0.max(1) as f64, t.2, t.3);
    { let sl = slowest.lock().unwrap(); println!("slowest run: index {} took {} us", sl.1, sl.0); }
    for (k, (c, i, m)) in tally.lock().unwrap().iter() {
        println!("{c:8} first_run={i:<6} {k}\n         {m}");
    }
    0
}

/// HELPER: prints the full trace of run `index` of a property (base seed VERIF_SEED).
///   verifsim trace <prop> <tier> <index>
pub fn cmd_trace(args: &[String]) -> i32 {
    let Some(spec) = args.first().and_then(|p| props::find(p)) else { return 2 };
    let Some(tier) = parse_tier(args.get(1)) else { return 2 };
    let i: u64 = args.get(2).and_then(|s| s.parse().ok()).unwrap_or(0);
    let seed = env_u64("VERIF_SEED", 1);
    let f = props::runner(spec.id, tier);
    let mut ch = Choices::generate(choices::mix(seed, i));
    let mut rep = RunReport::new(true);
    let mut out = run_one(&*f, &mut ch, &mut rep);
    if spec.level == "fault_enumeration" {
        if let Ok(Outcome::Violation(_)) | Ok(Outcome::Foreign(_)) = &out {
            // replay the single crash point that failed
            let log = ch.log.clone();
            println!("-- single crash point: choices start {:?}", &log[..log.len().min(3)]);
            let mut ch2 = Choices::replay(choices::mix(seed, i), log);
            rep = RunReport::new(true);
            out = run_one(&*f, &mut ch2, &mut rep);
        }
    }
    for l in rep.lines.unwrap_or_default() { println!("{l}"); }
    match out {
        Ok(Outcome::Ok) => println!("=> ok"),
        Ok(Outcome::Violation(v)) => println!("=> VIOLATION [{}] {}", v.class, v.message),
        Ok(Outcome::Foreign(w)) => println!("=> foreign {w}"),
        Err(e) => println!("=> harness error {e}"),
    }
    0
}
