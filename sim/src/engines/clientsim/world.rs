//! The simulated world of one clientsim run: the real rumqttc event loop on
//! one end of SimNet, the scripted broker and the user actor on the other,
//! interleaved by the seeded scheduler on paused tokio time.
//!
//! Structure of a run (`simulate`): an outer loop creates ONE `poll()` future
//! at a time and drives it with `timeout(budget, &mut fut)`; when the budget
//! elapses the future is KEPT (never dropped, so `poll()` is never
//! cancelled) and the scheduler performs user / script actions before
//! resuming it. When it completes, the harness absorbs the bytes the client
//! wrote, reads the public state of the event loop and runs the oracles.

use super::cfg::{AckOrder, C18Mode, Cfg, PingMode, P};
use super::cl::{ErrKind, Ev, Handle, Loop, PErr, Rq, Snapshot};
use super::net::{Dir, NetRef};
use super::proto::{self, Decoded, Pk, R_FAIL, R_NOMATCH, R_OK};
use crate::choices::Choices;
use crate::core::{RunReport, Violation};
use crate::tr;
use std::collections::{BTreeMap, BTreeSet, HashMap, VecDeque};
use std::time::Duration;
use tokio::time::Instant;

pub const TOL_MS: u64 = 2;

#[derive(Clone, Copy, Debug, PartialEq, Eq)]
pub enum ReqKind {
    Pub,
    Sub,
    Unsub,
}

#[derive(Clone, Copy, Debug, PartialEq, Eq)]
pub enum Where {
    Nowhere,
    Pending,
    Retrans,
    Collision,
}

pub struct Req {
    pub kind: ReqKind,
    /// Unique payload (publish) or filter (subscribe / unsubscribe).
    pub key: Vec<u8>,
    pub topic: String,
    pub qos: u8,
    /// Number of `poll()` errors returned before the request was issued.
    pub epoch: u32,
    pub accepted: bool,
    pub seen_somewhere: bool,
    pub wire_id: Option<u16>,
    pub first_tx: Option<u64>,
    pub final_acked: bool,
    pub rec_sent: bool,
    pub released: bool,
    pub last_where: Where,
    pub was_parked: bool,
    /// Sent on the wire since the previous inspection.
    pub wired_since: bool,
    pub from_pending: bool,
    /// Where (connection, index into `written`) the script's output stood at
    /// the last inspection before this publish was first seen parked.
    pub parked_mark: Option<(usize, usize)>,
    pub parked_id: u16,
    /// Final acks for the parked id sent while this publish was parked and
    /// not yet on the wire: the first releases it, a further one may be taken
    /// by the client as its acknowledgement.
    pub pre_acks: u32,
}

#[derive(Clone, Copy, Debug, PartialEq, Eq)]
pub enum OwedKind {
    PubAck,
    PubRec,
    PubComp,
    SubAck(usize),
    UnsubAck,
    PingResp,
}

pub struct Owed {
    pub kind: OwedKind,
    pub pkid: u16,
    pub never: bool,
    pub due_ms: Option<u64>,
}

/// Script-side state of one connection.
pub struct ConnS {
    /// Index (in `written`) of the frame above the client's incoming limit, after
    /// which the script says nothing more on this connection.
    pub oversize_at: Option<usize>,
    /// DISCONNECT packets the client wrote on this connection.
    pub client_disconnects: u32,
    pub inbuf: Vec<u8>,
    pub connack_sent: bool,
    pub connack_ms: u64,
    pub sp: bool,
    pub limit_eff: u16,
    pub written: Vec<Pk>,
    pub written_known_rel: Vec<bool>,
    pub written_ends: Vec<u64>,
    pub written_bytes: u64,
    pub owed: Vec<Owed>,
    /// Publishes received whose final ack the script has not sent: id -> request index.
    pub out_pub: BTreeMap<u16, usize>,
    pub out_rel: BTreeSet<u16>,
    pub in_pub2: BTreeSet<u16>,
    pub first_unsol: Option<usize>,
    /// Indices (in `written`) of acks that were unsolicited when sent and have
    /// not become solicited since (a later client PUBLISH / PUBREL with that id
    /// may be processed by the client before the ack is).
    pub unsol: Vec<usize>,
    /// Ids of acks that were unsolicited when sent: the client may release
    /// such an id later without a further ack from the script.
    pub stray: BTreeSet<u16>,
    pub stray_count: usize,
    /// Ids whose PUBREC may have been solicited after all: a PUBCOMP for
    /// them cannot be called unsolicited.
    pub maybe_rel: BTreeSet<u16>,
    /// PUBREC sent, the client's PUBREL not yet seen.
    pub rel_expected: BTreeSet<u16>,
    /// PUBCOMP sent before the client's PUBREL arrived.
    pub early_comp: BTreeSet<u16>,
    /// PUBACK (or failed PUBREC) / successful PUBREC sent for an id that no
    /// publish used at that moment: the client may take it as the answer to
    /// the next publish it registers under that id.
    pub stray_final: BTreeMap<u16, u32>,
    pub stray_rec: BTreeMap<u16, u32>,
    pub stray_comp: BTreeMap<u16, u32>,
    /// Ids that two flows shared at the same time on this connection: which
    /// ack the client applies to which flow cannot be told from outside.
    pub confused: BTreeSet<u16>,
    pub dead_seen: bool,
    pub cut_seen: bool,
    pub malformed: bool,
    // C10
    pub surfaced: usize,
    pub wq: VecDeque<(u8, u16)>,
    pub acks_seen: BTreeMap<(u8, u16), u32>,
    pub acks_need: BTreeMap<(u8, u16), u32>,
    pub acks_may: BTreeMap<(u8, u16), u32>,
    // C18
    pub last_ping_ms: Option<u64>,
    pub pings: u32,
    pub wire_count: u32,
}

impl ConnS {
    fn new() -> ConnS {
        ConnS {
            inbuf: Vec::new(),
            connack_sent: false,
            connack_ms: 0,
            sp: false,
            limit_eff: 0,
            written: Vec::new(),
            written_known_rel: Vec::new(),
            written_ends: Vec::new(),
            written_bytes: 0,
            owed: Vec::new(),
            out_pub: BTreeMap::new(),
            out_rel: BTreeSet::new(),
            in_pub2: BTreeSet::new(),
            first_unsol: None,
            unsol: Vec::new(),
            client_disconnects: 0,
            oversize_at: None,
            stray: BTreeSet::new(),
            stray_count: 0,
            maybe_rel: BTreeSet::new(),
            rel_expected: BTreeSet::new(),
            early_comp: BTreeSet::new(),
            stray_final: BTreeMap::new(),
            stray_rec: BTreeMap::new(),
            stray_comp: BTreeMap::new(),
            confused: BTreeSet::new(),
            dead_seen: false,
            cut_seen: false,
            malformed: false,
            surfaced: 0,
            wq: VecDeque::new(),
            acks_seen: BTreeMap::new(),
            acks_need: BTreeMap::new(),
            acks_may: BTreeMap::new(),
            last_ping_ms: None,
            pings: 0,
            wire_count: 0,
        }
    }
}

pub struct ReplayWin {
    pub conn: usize,
    pub deadline_ms: u64,
    pub need_pubs: BTreeSet<usize>,
    pub need_rels: BTreeSet<u16>,
    pub parked: Option<usize>,
}

pub struct FreshWin {
    pub conn: usize,
    pub deadline_ms: u64,
    pub req: usize,
    pub collision_at_start: bool,
}

pub struct Carry {
    /// Requests issued at or after this epoch were issued after the failure.
    pub epoch_fail: u32,
    /// Carried publishes that had been registered (id assigned), in carried order.
    pub regs: Vec<(usize, u16)>,
    /// Every carried publish (pending, retransmission set, parked collision).
    pub all: BTreeSet<usize>,
    pub collision: Option<usize>,
    pub interrupted: bool,
    pub ordered: bool,
    pub conn: Option<usize>,
    pub sp: Option<bool>,
    pub seen: BTreeSet<usize>,
    pub last_ftx: Option<(u64, usize)>,
    pub pending_checked: bool,
}

pub struct DrainWin {
    pub conn: usize,
    pub deadline_ms: Option<u64>,
    /// Requests that were still in the request channel when the phase began.
    pub reqs: Vec<usize>,
}

pub struct World<'a> {
    pub cfg: Cfg,
    pub ch: &'a mut Choices,
    pub rep: &'a mut RunReport,
    pub net: NetRef,
    pub handle: Handle,
    pub t0: Instant,
    pub reqs: Vec<Req>,
    pub by_key: HashMap<Vec<u8>, usize>,
    pub conns: Vec<ConnS>,
    pub epoch: u32,
    pub established: bool,
    pub viol: Option<Violation>,
    pub ftx: u64,
    pub last_ack_sent: Option<Pk>,
    pub user_left: u32,
    pub any_q2: bool,
    pub acks_in_order: bool,
    pub last_snap: Snapshot,
    pub polls: u32,
    pub errs: u32,
    pub connacks_sent: u32,
    pub faults_fired: u32,
    pub extra_cuts: u32,
    // windows
    pub replay: Option<ReplayWin>,
    pub fresh: Option<FreshWin>,
    pub carry: Option<Carry>,
    pub drain: Option<DrainWin>,
    pub drain_done: bool,
    // C07
    pub parked_key: Option<Vec<u8>>,
    pub new_wire: Vec<usize>,
    // C10
    pub leftover: VecDeque<(Ev, usize)>,
    pub unsol_sent: bool,
    pub inbound_seq: u32,
    pub received_pubs: Vec<Pk>,
    pub writes_refused: bool,
    // C18
    pub silent_at_ms: Option<u64>,
    pub silent: bool,
    pub detected: bool,
    pub connect_started_ms: Option<u64>,
    pub c18_done: bool,
    pub oversize_done: bool,
    pub c18_busy: bool,
    pub c18_pub_delay: Option<u64>,
    pub c18_gap: bool,
    pub c18_gap_taken_for: Option<u64>,
    /// Keep-alive in force on the current connection (CONNECT value, or the
    /// server keep-alive of the CONNACK), in ms.
    pub k_eff_ms: Option<u64>,
    pub c18_second_life: bool,
    pub c18_break_at_ms: Option<u64>,
    pub c18_break_on_ping: bool,
    pub c18_break_pending: bool,
    pub c18_broke: bool,
    pub c18_break_reported: bool,
    pub end_ms: u64,
    pub nontrivial_marks: u32,
    pub pending_manual: Vec<(u8, u16)>,
    pub last_new_pkid: Option<u16>,
    pub silent_t: Option<u64>,
    /// (connection, written.len()) at the previous inspection.
    pub inspect_mark: (usize, usize),
    pub reported_parked: BTreeSet<Vec<u8>>,
}

fn kind_code(p: &Pk) -> Option<(u8, u16)> {
    Some(match p {
        Pk::Publish { pkid, .. } => (3, *pkid),
        Pk::PubAck { pkid, .. } => (4, *pkid),
        Pk::PubRec { pkid, .. } => (5, *pkid),
        Pk::PubRel { pkid, .. } => (6, *pkid),
        Pk::PubComp { pkid, .. } => (7, *pkid),
        Pk::Subscribe { pkid, .. } => (8, *pkid),
        Pk::Unsubscribe { pkid, .. } => (10, *pkid),
        Pk::PingReq => (12, 0),
        Pk::PingResp => (13, 0),
        Pk::Disconnect { .. } => (14, 0),
        _ => return None,
    })
}

fn code_name(c: u8) -> &'static str {
    match c {
        3 => "publish",
        4 => "puback",
        5 => "pubrec",
        6 => "pubrel",
        7 => "pubcomp",
        8 => "subscribe",
        10 => "unsubscribe",
        12 => "pingreq",
        13 => "pingresp",
        14 => "disconnect",
        _ => "other",
    }
}

impl<'a> World<'a> {
    pub fn now_ms(&self) -> u64 {
        (Instant::now() - self.t0).as_millis() as u64
    }

    pub fn violate(&mut self, class: String, message: String) {
        // HELPER for triage only: VERIF_CLIENTSIM_SKIP=prefix1,prefix2 makes the
        // run continue past violations whose class starts with a listed prefix
        static SKIP: std::sync::OnceLock<Vec<String>> = std::sync::OnceLock::new();
        let skip = SKIP.get_or_init(|| {
            std::env::var("VERIF_CLIENTSIM_SKIP")
                .map(|s| s.split(',').filter(|p| !p.is_empty()).map(|p| p.to_string()).collect())
                .unwrap_or_default()
        });
        if skip.iter().any(|p| class.starts_with(p.as_str())) {
            self.rep.probe("skipped_violation");
            return;
        }
        if self.viol.is_none() {
            tr!(self.rep, "VIOLATION [{class}] {message}");
            self.viol = Some(Violation {
                property: self.cfg.prop.id(),
                class,
                message,
            });
        }
    }

    pub fn is(&self, p: P) -> bool {
        // a C05 run is a C10 run with one oversize frame
        self.cfg.prop == p || (p == P::C10 && self.cfg.prop == P::C05)
    }

    /// Index of the latest connection, if it is still usable by the script.
    pub fn cur(&self) -> Option<usize> {
        let n = self.net.lock().unwrap();
        let i = n.conns.len().checked_sub(1)?;
        let c = &n.conns[i];
        if c.broken || c.closed_by_client || c.closed_by_script {
            None
        } else {
            Some(i)
        }
    }

    /// The script behaves like a prompt, honest broker (during the windows
    /// in which a liveness clause is evaluated).
    pub fn quiet(&self) -> bool {
        self.replay.is_some() || self.fresh.is_some() || self.drain.is_some()
    }

    fn void_windows(&mut self, why: &str) {
        if self.replay.is_some() || self.fresh.is_some() || self.drain.is_some() {
            tr!(self.rep, "windows voided: {why}");
        }
        self.replay = None;
        self.fresh = None;
        if self.drain.take().is_some() {
            self.drain_done = true;
        }
    }

    // -----------------------------------------------------------------------
    // Script: sending
    // -----------------------------------------------------------------------

    pub fn send(&mut self, idx: usize, pk: Pk) {
        if self.cur() != Some(idx) || self.conns[idx].oversize_at.is_some() {
            return;
        }
        let mut bytes = Vec::new();
        if !proto::encode(self.cfg.v5, &pk, &mut bytes) {
            return;
        }
        let now = self.now_ms();
        tr!(self.rep, "{now} script[{idx}] -> {}", pk.short());
        // the script's model of the client's tables (strictly unsolicited acks)
        let c = &mut self.conns[idx];
        let mut known_rel = false;
        let mut unsol = false;
        match &pk {
            Pk::PubAck { pkid, .. } => {
                if c.out_pub.remove(pkid).is_none() {
                    unsol = true;
                    *c.stray_final.entry(*pkid).or_insert(0) += 1;
                }
            }
            Pk::PubRec { pkid, reason } => {
                if c.out_pub.remove(pkid).is_none() {
                    unsol = true;
                    if *reason == R_FAIL {
                        *c.stray_final.entry(*pkid).or_insert(0) += 1;
                    } else {
                        *c.stray_rec.entry(*pkid).or_insert(0) += 1;
                    }
                } else if *reason != R_FAIL {
                    c.out_rel.insert(*pkid);
                    c.rel_expected.insert(*pkid);
                }
            }
            Pk::PubComp { pkid, .. } => {
                if !c.out_rel.remove(pkid) {
                    unsol = true;
                    *c.stray_comp.entry(*pkid).or_insert(0) += 1;
                } else if c.rel_expected.contains(pkid) {
                    c.early_comp.insert(*pkid);
                }
            }
            Pk::PubRel { pkid, .. } => {
                known_rel = c.in_pub2.remove(pkid);
                if !known_rel {
                    unsol = true;
                }
            }
            Pk::Publish { qos: 2, pkid, .. } => {
                c.in_pub2.insert(*pkid);
            }
            _ => {}
        }
        // an ack for the id on which a publish is parked may release and
        // re-register that publish before the client gets to this ack
        if unsol {
            if let (Some(Rq::Publish { pkid: parked, .. }), Pk::PubAck { pkid, .. } | Pk::PubRec { pkid, .. }) =
                (&self.last_snap.collision, &pk)
            {
                if parked == pkid {
                    unsol = false;
                    if matches!(pk, Pk::PubRec { .. }) {
                        c.maybe_rel.insert(*pkid);
                    }
                    c.stray.insert(*pkid);
                    c.stray_count += 1;
                }
            }
        }
        if unsol {
            if let Pk::PubComp { pkid, .. } = &pk {
                if c.maybe_rel.contains(pkid) {
                    unsol = false;
                    c.stray.insert(*pkid);
                    c.stray_count += 1;
                }
            }
        }
        if unsol {
            self.unsol_sent = true;
            self.rep.probe("unsolicited_ack_sent");
            c.unsol.push(c.written.len());
            c.first_unsol = c.unsol.first().copied();
            if let Pk::PubAck { pkid, .. } | Pk::PubRec { pkid, .. } | Pk::PubComp { pkid, .. } = &pk {
                c.stray.insert(*pkid);
                c.stray_count += 1;
            }
        }
        c.written.push(pk.clone());
        c.written_known_rel.push(known_rel);
        c.written_bytes += bytes.len() as u64;
        c.written_ends.push(c.written_bytes);
        // C10: acks the client may / must produce
        if matches!(self.cfg.prop, P::C10 | P::C05) {
            match &pk {
                Pk::Publish { qos: 1, pkid, .. } => {
                    *c.acks_may.entry((4, *pkid)).or_insert(0) += 1;
                }
                Pk::Publish { qos: 2, pkid, .. } => {
                    *c.acks_may.entry((5, *pkid)).or_insert(0) += 1;
                }
                Pk::PubRel { pkid, .. } if known_rel => {
                    *c.acks_may.entry((7, *pkid)).or_insert(0) += 1;
                }
                _ => {}
            }
        }
        // an id that two flows share: which of them this ack answers cannot be
        // told from outside, both are let go
        if let Pk::PubAck { pkid, .. } | Pk::PubRec { pkid, .. } | Pk::PubComp { pkid, .. } = &pk {
            if self.conns[idx].confused.contains(pkid) {
                self.rep.probe("exempt_id_shared_by_two_flows");
                for r in self.reqs.iter_mut() {
                    if r.wire_id == Some(*pkid) && r.kind == ReqKind::Pub {
                        r.final_acked = true;
                    }
                }
            }
        }
        // exemptions of C02: the final ack has been SENT
        let final_for: Option<u16> = match &pk {
            Pk::PubAck { pkid, .. } | Pk::PubComp { pkid, .. } => Some(*pkid),
            Pk::PubRec { pkid, reason } if *reason == R_FAIL => Some(*pkid),
            _ => None,
        };
        if let Some(p) = final_for {
            for r in self.reqs.iter_mut() {
                if r.wire_id == Some(p) && !r.final_acked && r.kind == ReqKind::Pub {
                    r.final_acked = true;
                }
                if r.last_where == Where::Collision && r.parked_id == p && r.wire_id.is_none() {
                    r.pre_acks += 1;
                    if r.pre_acks >= 2 {
                        r.final_acked = true;
                    }
                }
            }
        }
        if let Pk::PubRec { pkid, reason } = &pk {
            if *reason != R_FAIL {
                for r in self.reqs.iter_mut() {
                    if r.wire_id == Some(*pkid) && !r.final_acked {
                        r.rec_sent = true;
                    }
                    if r.last_where == Where::Collision && r.parked_id == *pkid && r.wire_id.is_none() && r.pre_acks >= 1 {
                        r.final_acked = true;
                    }
                }
            }
        }
        if matches!(
            pk,
            Pk::PubAck { .. } | Pk::PubRec { .. } | Pk::PubComp { .. }
        ) {
            self.last_ack_sent = Some(pk.clone());
        }
        self.net.lock().unwrap().script_write(idx, &bytes);
    }

    /// Sends one owed ack chosen by the policy. Returns false if none.
    pub fn script_ack(&mut self, idx: usize, prompt: bool) -> bool {
        let now = self.now_ms();
        let c = &self.conns[idx];
        let cand: Vec<usize> = c
            .owed
            .iter()
            .enumerate()
            .filter(|(_, o)| {
                !o.never && o.kind != OwedKind::PingResp && o.due_ms.map_or(true, |d| d <= now)
            })
            .map(|(i, _)| i)
            .collect();
        if cand.is_empty() {
            return false;
        }
        let pick = if prompt {
            cand[0]
        } else {
            match self.cfg.order {
                AckOrder::InOrder => cand[0],
                AckOrder::Reversed => *cand.last().unwrap(),
                AckOrder::Random => cand[self.ch.pick(cand.len() as u32) as usize],
                AckOrder::PerQos => {
                    let c = &self.conns[idx];
                    let mut first_ack = true;
                    let sub: Vec<usize> = cand
                        .iter()
                        .copied()
                        .filter(|i| match c.owed[*i].kind {
                            OwedKind::PubAck => std::mem::replace(&mut first_ack, false),
                            _ => true,
                        })
                        .collect();
                    sub[self.ch.pick(sub.len() as u32) as usize]
                }
            }
        };
        let o = self.conns[idx].owed.remove(pick);
        let reason = if !prompt
            && self.cfg.v5
            && self.cfg.reason_pc > 0
            && self.ch.pick(100) < self.cfg.reason_pc
        {
            if self.ch.coin(1, 3) {
                R_NOMATCH
            } else {
                R_FAIL
            }
        } else {
            R_OK
        };
        if reason == R_FAIL {
            self.rep.probe("v5_failure_reason_ack");
        }
        let pk = match o.kind {
            OwedKind::PubAck => {
                // in-order bookkeeping for the ordering clause of C11
                let oldest = self.conns[idx]
                    .out_pub
                    .iter()
                    .filter(|(_, ri)| self.reqs.get(**ri).map_or(false, |r| r.qos == 1))
                    .min_by_key(|(_, ri)| self.reqs[**ri].first_tx.unwrap_or(u64::MAX))
                    .map(|(p, _)| *p);
                if oldest != Some(o.pkid) {
                    self.acks_in_order = false;
                }
                Pk::PubAck {
                    pkid: o.pkid,
                    reason,
                }
            }
            OwedKind::PubRec => {
                // QoS 2 flows do not touch the order in which the broker
                // acknowledges QoS 1 publishes (the clause judges those only)
                Pk::PubRec {
                    pkid: o.pkid,
                    reason: if reason == R_NOMATCH && self.ch.coin(1, 2) { R_OK } else { reason },
                }
            }
            OwedKind::PubComp => Pk::PubComp {
                pkid: o.pkid,
                reason: if reason == R_NOMATCH { R_OK } else { reason },
            },
            OwedKind::SubAck(n) => Pk::SubAck { pkid: o.pkid, n },
            OwedKind::UnsubAck => Pk::UnsubAck { pkid: o.pkid },
            OwedKind::PingResp => Pk::PingResp,
        };
        self.send(idx, pk);
        true
    }

    /// A duplicate ack, an ack for an id nobody uses, or one above the limit.
    fn script_bad_ack(&mut self, idx: usize) {
        self.acks_in_order = false;
        let limit = self.cfg.limit;
        let pkid: u16 = match self.ch.pick(4) {
            0 => {
                // duplicate of something already acked (or any earlier ack)
                let prev: Vec<u16> = self.conns[idx]
                    .written
                    .iter()
                    .filter_map(|p| match p {
                        Pk::PubAck { pkid, .. } | Pk::PubRec { pkid, .. } | Pk::PubComp { pkid, .. } => {
                            Some(*pkid)
                        }
                        _ => None,
                    })
                    .collect();
                if prev.is_empty() {
                    1
                } else {
                    self.rep.probe("duplicate_ack");
                    prev[self.ch.pick(prev.len() as u32) as usize]
                }
            }
            1 => {
                self.rep.probe("ack_id_above_limit");
                match self.ch.pick(3) {
                    0 => limit.saturating_add(1),
                    1 => 65535,
                    _ => limit.saturating_add(self.ch.range(1, 300) as u16),
                }
            }
            2 => 0,
            _ => self.ch.range(1, (limit as u32).min(12)) as u16,
        };
        let pk = match self.ch.pick(4) {
            0 | 1 => Pk::PubAck { pkid, reason: R_OK },
            2 => Pk::PubRec { pkid, reason: R_OK },
            _ => Pk::PubComp { pkid, reason: R_OK },
        };
        self.rep.probe("bad_ack_injected");
        self.send(idx, pk);
    }

    /// Inbound traffic: a batch of 1..25 packets written at once.
    fn script_inbound(&mut self, idx: usize) {
        let n = match self.ch.pick(6) {
            0 => self.ch.range(10, 25),
            1 => self.ch.range(2, 9),
            _ => 1,
        };
        if n >= 10 {
            self.rep.probe("inbound_batch_10_plus");
        }
        for _ in 0..n {
            self.inbound_seq += 1;
            let seq = self.inbound_seq;
            if self.cfg.oversize && !self.oversize_done && self.established && self.ch.coin(1, 6) {
                // one frame above the client's incoming limit (10 KiB): it must be
                // refused, whatever limits the CONNACK carried for the other direction
                self.oversize_done = true;
                let qos = self.ch.pick(2) as u8;
                let mut payload = format!("i{seq}").into_bytes();
                payload.resize(*self.ch.choose(&[10_300usize, 11_000, 70_000]), b'x');
                let pk = Pk::Publish {
                    dup: false,
                    qos,
                    retain: false,
                    topic: "in/0".into(),
                    pkid: if qos == 0 { 0 } else { 9 },
                    payload,
                    alias: None,
                };
                self.rep.fault("oversize_frame");
                self.send(idx, pk);
                let at = self.conns[idx].written.len().saturating_sub(1);
                self.conns[idx].oversize_at = Some(at);
                return;
            }
            let k = if self.is(P::C18) { self.ch.pick(3) } else { self.ch.pick(8) };
            let pk = match k {
                0 | 1 | 2 | 3 => {
                    let qos = if k == 3 { self.ch.pick(3) as u8 } else { k as u8 };
                    let pkid = if qos == 0 {
                        0
                    } else if self.ch.coin(1, 8) {
                        *self.ch.choose(&[65535u16, 1000, 101])
                    } else {
                        self.ch.range(1, 6) as u16
                    };
                    let alias = if self.cfg.v5 && self.is(P::C10) && self.ch.coin(1, 4) {
                        Some(self.ch.range(1, 4) as u16)
                    } else {
                        None
                    };
                    let topic = if alias.is_some() && self.ch.coin(1, 2) {
                        self.rep.probe("inbound_alias_only");
                        String::new()
                    } else {
                        format!("in/{}", seq % 3)
                    };
                    // (a broker may deliver a QoS>0 publish again with DUP set: it is
                    // answered like any other)
                    let dup = qos > 0 && self.is(P::C10) && self.ch.coin(1, 6);
                    Pk::Publish {
                        dup,
                        qos,
                        retain: false,
                        topic,
                        pkid,
                        payload: format!("i{seq}").into_bytes(),
                        alias,
                    }
                }
                4 | 5 => {
                    // PUBREL of a known id if there is one, else unknown
                    let known: Vec<u16> = self.conns[idx].in_pub2.iter().copied().collect();
                    let pkid = if !known.is_empty() && (k == 4 || self.ch.coin(2, 3)) {
                        self.rep.probe("inbound_pubrel_known");
                        known[self.ch.pick(known.len() as u32) as usize]
                    } else {
                        self.rep.probe("inbound_pubrel_unknown");
                        self.ch.range(1, 8) as u16
                    };
                    let reason = if self.cfg.v5 && self.ch.pick(100) < self.cfg.reason_pc {
                        R_FAIL
                    } else {
                        R_OK
                    };
                    Pk::PubRel { pkid, reason }
                }
                6 => Pk::PingResp,
                _ => {
                    if self.ch.coin(1, 2) {
                        Pk::SubAck {
                            pkid: self.ch.range(0, 5) as u16,
                            n: 1,
                        }
                    } else {
                        Pk::UnsubAck {
                            pkid: self.ch.range(0, 5) as u16,
                        }
                    }
                }
            };
            self.send(idx, pk);
        }
    }

    // -----------------------------------------------------------------------
    // Script: receiving
    // -----------------------------------------------------------------------

    /// Takes the bytes the client wrote, decodes them and runs the wire-level
    /// oracles; notices new connections, dead connections and fired cuts.
    pub fn absorb(&mut self) {
        let n_conns = self.net.lock().unwrap().conns.len();
        while self.conns.len() < n_conns {
            self.conns.push(ConnS::new());
            let i = self.conns.len() - 1;
            for k in self.pending_manual.clone() {
                *self.conns[i].acks_may.entry(k).or_insert(0) += 1;
            }
            let now = self.now_ms();
            tr!(self.rep, "{now} connection #{i} opened");
            self.rep.probe("connection_opened");
        }
        let lo = n_conns.saturating_sub(2);
        for idx in lo..n_conns {
            let mut buf = std::mem::take(&mut self.conns[idx].inbuf);
            self.net.lock().unwrap().script_take(idx, &mut buf);
            let mut off = 0usize;
            while off < buf.len() && !self.conns[idx].malformed {
                match proto::decode(self.cfg.v5, &buf[off..]) {
                    Decoded::Packet(pk, used) => {
                        off += used;
                        self.on_wire(idx, pk);
                    }
                    Decoded::NeedMore => break,
                    Decoded::Malformed(e) => {
                        let now = self.now_ms();
                        tr!(self.rep, "{now} wire[{idx}] MALFORMED {e}");
                        self.rep.probe("client_wrote_malformed");
                        self.conns[idx].malformed = true;
                    }
                }
            }
            buf.drain(..off);
            self.conns[idx].inbuf = buf;
            // faults that fired on this connection
            let (cut, stall, swallowed, dead, s2c_bytes) = {
                let n = self.net.lock().unwrap();
                let c = &n.conns[idx];
                (
                    c.cut_fired,
                    c.stall_fired,
                    c.half_open_swallowed,
                    c.broken || c.closed_by_client || c.closed_by_script,
                    c.s2c_bytes,
                )
            };
            if stall {
                if !self.writes_refused {
                    self.rep.fault("stall_writes");
                }
                self.writes_refused = true;
            }
            if let Some(dir) = cut {
                if !self.conns[idx].cut_seen {
                    self.conns[idx].cut_seen = true;
                    self.faults_fired += 1;
                    let now = self.now_ms();
                    let mid = match dir {
                        Dir::C2S => !self.conns[idx].inbuf.is_empty(),
                        Dir::S2C => {
                            s2c_bytes != 0 && !self.conns[idx].written_ends.contains(&s2c_bytes)
                        }
                    };
                    tr!(self.rep, "{now} CUT fired on #{idx} dir={dir:?} mid_packet={mid}");
                    self.rep.fault(match dir {
                        Dir::C2S => "cut_c2s",
                        Dir::S2C => "cut_s2c",
                    });
                    if mid {
                        self.rep.probe("cut_mid_packet");
                    }
                    if self.replay.is_some() {
                        self.rep.probe("replay_interrupted");
                    }
                    self.void_windows("cut");
                    // seeded further failure
                    if self.extra_cuts < 2
                        && self.cfg.recut_pc > 0
                        && self.ch.pick(100) < self.cfg.recut_pc
                    {
                        self.extra_cuts += 1;
                        let d = self.ch.pick(2);
                        let after = self.ch.pick(160) as u64;
                        let mut n = self.net.lock().unwrap();
                        if d == 0 {
                            n.cut_c2s_at = Some(n.c2s_total + after);
                        } else {
                            n.cut_s2c_at = Some(n.s2c_total + after);
                        }
                        drop(n);
                        tr!(self.rep, "next cut armed dir={d} after={after}");
                    }
                }
            }
            let _ = swallowed;
            if dead && !self.conns[idx].dead_seen {
                self.conns[idx].dead_seen = true;
                let now = self.now_ms();
                tr!(self.rep, "{now} connection #{idx} is dead");
            }
        }
    }

    /// An ack that was unsolicited when the script sent it becomes possibly
    /// solicited when the client registers that id before processing it.
    pub fn cancel_unsol(&mut self, idx: usize, pkid: u16, rel: bool) {
        let c = &mut self.conns[idx];
        let written = &c.written;
        // a PUBREC that may be solicited after all may also make a later
        // PUBCOMP of that id solicited
        let first_rec = if rel {
            None
        } else {
            c.unsol
                .iter()
                .copied()
                .find(|i| matches!(&written[*i], Pk::PubRec { pkid: p, .. } if *p == pkid))
        };
        if first_rec.is_some() {
            c.maybe_rel.insert(pkid);
        }
        c.unsol.retain(|i| match &written[*i] {
            Pk::PubAck { pkid: p, .. } | Pk::PubRec { pkid: p, .. } => rel || *p != pkid,
            Pk::PubComp { pkid: p, .. } => {
                if *p != pkid {
                    true
                } else if rel {
                    false
                } else {
                    first_rec.map_or(true, |j| *i < j)
                }
            }
            _ => true,
        });
        c.first_unsol = c.unsol.first().copied();
    }

    fn limit_eff(&self, idx: usize) -> u16 {
        self.conns[idx].limit_eff.max(1)
    }

    fn on_wire(&mut self, idx: usize, pk: Pk) {
        let now = self.now_ms();
        tr!(self.rep, "{now} wire[{idx}] <- {}", pk.short());
        self.conns[idx].wire_count += 1;
        if !matches!(pk, Pk::Connect { .. }) {
            if let Some(k) = kind_code(&pk) {
                self.conns[idx].wq.push_back(k);
            }
        }
        match &pk {
            Pk::Connect { keep_alive, .. } => {
                let ka = *keep_alive;
                self.on_connect(idx, ka)
            }
            Pk::Publish {
                qos,
                pkid,
                payload,
                topic,
                ..
            } => {
                let Some(&ri) = self.by_key.get(payload) else {
                    return;
                };
                let is_new = self.reqs[ri].first_tx.is_none();
                if is_new {
                    self.ftx += 1;
                    self.reqs[ri].first_tx = Some(self.ftx);
                }
                self.reqs[ri].accepted = true;
                self.reqs[ri].seen_somewhere = true;
                self.reqs[ri].wired_since = true;
                if self.reqs[ri].topic != *topic || self.reqs[ri].qos != *qos {
                    if self.is(P::C02) || self.is(P::C11) {
                        self.violate(
                            "changed_publish:wire_content".into(),
                            format!("publish {} on the wire with topic {topic} qos {qos}, issued with topic {} qos {}", String::from_utf8_lossy(payload), self.reqs[ri].topic, self.reqs[ri].qos),
                        );
                    }
                }
                self.check_wire_request(idx, ri, is_new, if *qos > 0 { Some(*pkid) } else { None });
                if *qos > 0 {
                    // C07 (b): id in use by another unacknowledged publish
                    if self.is(P::C07) {
                        if let Some(&holder) = self.conns[idx].out_pub.get(pkid) {
                            if holder != ri && !self.conns[idx].stray.contains(pkid) {
                                let feature = if self.reqs[ri].was_parked {
                                    "after_collision"
                                } else if self.reqs[ri].from_pending {
                                    "replay"
                                } else {
                                    "fresh_allocation"
                                };
                                self.violate(
                                    format!("pkid_reused_while_unacked:{feature}"),
                                    format!(
                                        "PUBLISH {} uses id {pkid} while the broker still owes the final ack for {} with that id on connection #{idx}",
                                        String::from_utf8_lossy(payload),
                                        String::from_utf8_lossy(&self.reqs[holder].key)
                                    ),
                                );
                            }
                        } else if self.conns[idx].out_rel.contains(pkid) && !self.conns[idx].stray.contains(pkid) {
                            self.violate(
                                "pkid_reused_while_unacked:release_pending".into(),
                                format!(
                                    "PUBLISH {} uses id {pkid} while the QoS2 flow of that id is not complete (PUBCOMP not sent) on connection #{idx}",
                                    String::from_utf8_lossy(payload)
                                ),
                            );
                        }
                    }
                    // two flows share this id now (C07 reports that); C02 cannot
                    // attribute the broker's acks any more and lets both go
                    if !self.is(P::C07) {
                        let holder = self.conns[idx].out_pub.get(pkid).copied();
                        if holder.map_or(false, |h| h != ri) || self.conns[idx].out_rel.contains(pkid) {
                            self.conns[idx].confused.insert(*pkid);
                        }
                        // ... from the first ack the broker sends for that id
                        // (see `send`); until then both are certainly
                        // unacknowledged and both must be held
                        if self.conns[idx].confused.contains(pkid) {
                            self.rep.probe("id_shared_by_two_flows");
                        }
                    }
                    self.cancel_unsol(idx, *pkid, false);
                    if self.reqs[ri].wire_id.is_none() || is_new {
                        self.reqs[ri].wire_id = Some(*pkid);
                    }
                    // an answer for this id may already be under way: a stray
                    // ack sent before, or a second ack sent while the publish was parked
                    let mut answered = self.reqs[ri].pre_acks >= 2 && is_new;
                    if answered {
                        // the second of those acks is this publish's answer: it
                        // cannot answer a later publish with this id as well
                        if let Some(n) = self.conns[idx].stray_final.get_mut(pkid) {
                            if *n > 0 {
                                *n -= 1;
                            }
                        }
                    }
                    if !answered {
                        if let Some(n) = self.conns[idx].stray_final.get_mut(pkid) {
                            if *n > 0 {
                                *n -= 1;
                                self.reqs[ri].final_acked = true;
                                answered = true;
                            }
                        }
                    }
                    if !answered {
                        if let Some(n) = self.conns[idx].stray_rec.get_mut(pkid) {
                            if *n > 0 {
                                *n -= 1;
                                self.reqs[ri].rec_sent = true;
                                self.reqs[ri].final_acked = true;
                                answered = true;
                                // ... and so may a PUBCOMP that followed it
                                let comp = self.conns[idx].stray_comp.get_mut(pkid).map_or(false, |m| {
                                    if *m > 0 {
                                        *m -= 1;
                                        true
                                    } else {
                                        false
                                    }
                                });
                                if comp {
                                    self.reqs[ri].final_acked = true;
                                    self.conns[idx].early_comp.insert(*pkid);
                                    self.conns[idx].rel_expected.insert(*pkid);
                                } else {
                                    self.conns[idx].out_rel.insert(*pkid);
                                    self.conns[idx].rel_expected.insert(*pkid);
                                }
                            }
                        }
                    }
                    if answered {
                        self.rep.probe("publish_answered_in_advance");
                        self.c11_on_wire_publish(idx, ri, *pkid, *qos);
                        if let Some(w) = self.replay.as_mut() {
                            if w.conn == idx {
                                w.need_pubs.remove(&ri);
                            }
                        }
                        return;
                    }
                    self.conns[idx].out_pub.insert(*pkid, ri);
                    let never = !self.quiet()
                        && self.cfg.never_pm > 0
                        && self.ch.pick(1000) < self.cfg.never_pm;
                    if never {
                        self.rep.probe("ack_never");
                    }
                    self.conns[idx].owed.push(Owed {
                        kind: if *qos == 1 { OwedKind::PubAck } else { OwedKind::PubRec },
                        pkid: *pkid,
                        never,
                        due_ms: None,
                    });
                }
                self.c11_on_wire_publish(idx, ri, *pkid, *qos);
                if let Some(w) = self.replay.as_mut() {
                    if w.conn == idx {
                        w.need_pubs.remove(&ri);
                    }
                }
            }
            Pk::PubRel { pkid, .. } => {
                self.cancel_unsol(idx, *pkid, true);
                let expected = self.conns[idx].rel_expected.remove(pkid);
                if !(expected && self.conns[idx].early_comp.remove(pkid)) {
                    self.conns[idx].out_rel.insert(*pkid);
                }
                let never = !self.quiet()
                    && self.cfg.never_pm > 0
                    && self.ch.pick(1000) < self.cfg.never_pm;
                self.conns[idx].owed.push(Owed {
                    kind: OwedKind::PubComp,
                    pkid: *pkid,
                    never,
                    due_ms: None,
                });
                if let Some(w) = self.replay.as_mut() {
                    if w.conn == idx {
                        w.need_rels.remove(pkid);
                    }
                }
            }
            Pk::Subscribe { pkid, filters } => {
                let key = filters.first().map(|f| f.0.clone().into_bytes()).unwrap_or_default();
                if let Some(&ri) = self.by_key.get(&key) {
                    let is_new = self.reqs[ri].first_tx.is_none();
                    if is_new {
                        self.ftx += 1;
                        self.reqs[ri].first_tx = Some(self.ftx);
                    }
                    self.reqs[ri].accepted = true;
                    self.reqs[ri].seen_somewhere = true;
                    self.check_wire_request(idx, ri, is_new, Some(*pkid));
                    self.c11_on_wire_other(idx, ri);
                }
                self.conns[idx].owed.push(Owed {
                    kind: OwedKind::SubAck(filters.len()),
                    pkid: *pkid,
                    never: false,
                    due_ms: None,
                });
            }
            Pk::Unsubscribe { pkid, topics } => {
                let mut key = b"U:".to_vec();
                key.extend(topics.first().map(|f| f.clone().into_bytes()).unwrap_or_default());
                if let Some(&ri) = self.by_key.get(&key) {
                    let is_new = self.reqs[ri].first_tx.is_none();
                    if is_new {
                        self.ftx += 1;
                        self.reqs[ri].first_tx = Some(self.ftx);
                    }
                    self.reqs[ri].accepted = true;
                    self.reqs[ri].seen_somewhere = true;
                    self.check_wire_request(idx, ri, is_new, Some(*pkid));
                    self.c11_on_wire_other(idx, ri);
                }
                self.conns[idx].owed.push(Owed {
                    kind: OwedKind::UnsubAck,
                    pkid: *pkid,
                    never: false,
                    due_ms: None,
                });
            }
            Pk::PubAck { pkid, .. } | Pk::PubRec { pkid, .. } | Pk::PubComp { pkid, .. } => {
                if self.is(P::C10) {
                    let code = kind_code(&pk).unwrap().0;
                    let c = &mut self.conns[idx];
                    let seen = {
                        let e = c.acks_seen.entry((code, *pkid)).or_insert(0);
                        *e += 1;
                        *e
                    };
                    let may = c.acks_may.get(&(code, *pkid)).copied().unwrap_or(0);
                    if seen > may {
                        let manual = self.cfg.manual_acks;
                        self.violate(
                            format!(
                                "unexpected_ack:{}{}",
                                code_name(code),
                                if manual { ":manual_acks" } else { "" }
                            ),
                            format!(
                                "the client wrote {} although the broker sent only {may} packet(s) calling for it on connection #{idx} (manual_acks={manual})",
                                pk.short()
                            ),
                        );
                    }
                }
            }
            Pk::PingReq => {
                self.rep.probe("ping_sent");
                self.c18_on_ping(idx, now);
                if self.c18_break_pending {
                    self.c18_break(idx, now);
                    return;
                }
                if self.silent {
                    return;
                }
                match self.cfg.ping {
                    PingMode::Never => {}
                    PingMode::Prompt => self.conns[idx].owed.push(Owed {
                        kind: OwedKind::PingResp,
                        pkid: 0,
                        never: false,
                        due_ms: Some(now),
                    }),
                    PingMode::Delayed => {
                        let k = self.k_eff_ms.unwrap_or(self.cfg.keep_alive_s * 1000).max(1000);
                        let d = if self.c18_gap {
                            // (up to K - 50 ms: in time, also for an interval that starts
                            // with a late ping)
                            match self.ch.pick(3) {
                                0 => 0,
                                1 => k - 50,
                                _ => self.ch.pick((k - 50) as u32) as u64,
                            }
                        } else if self.c18_busy {
                            // (the script gets its turn only between the polls
                            // of the slow user loop)
                            self.ch.pick((k / 2) as u32) as u64
                        } else {
                            match self.ch.pick(4) {
                                0 => 0,
                                1 => k - 5,
                                _ => self.ch.pick((k - 4) as u32) as u64,
                            }
                        };
                        self.conns[idx].owed.push(Owed {
                            kind: OwedKind::PingResp,
                            pkid: 0,
                            never: false,
                            due_ms: Some(now + d),
                        });
                    }
                }
            }
            Pk::Disconnect { .. } => {
                self.rep.probe("client_disconnect_on_wire");
                self.conns[idx].client_disconnects += 1;
            }
            _ => {}
        }
    }

    fn on_connect(&mut self, idx: usize, connect_keep_alive: u16) {
        let now = self.now_ms();
        self.connect_started_ms.get_or_insert(now);
        match self.cfg.c18 {
            C18Mode::NoConnAck => return,
            C18Mode::PartialConnAck => {
                let mut bytes = Vec::new();
                proto::encode(
                    self.cfg.v5,
                    &Pk::ConnAck {
                        sp: false,
                        code: 0,
                        recv_max: None,
                        alias_max: None,
                        ska: None,
                    },
                    &mut bytes,
                );
                self.net.lock().unwrap().script_write(idx, &bytes[..1]);
                return;
            }
            _ => {}
        }
        // acks sent on earlier connections can no longer reach the client
        for r in self.reqs.iter_mut() {
            r.pre_acks = 0;
        }
        let first = self.connacks_sent == 0;
        let sp = !first && self.ch.pick(100) < self.cfg.sp_pc;
        let recv_max = if self.cfg.v5 && self.cfg.recv_max_pc > 0 && self.ch.pick(100) < self.cfg.recv_max_pc {
            let l = self.cfg.limit as u32;
            Some(self.ch.range(1, l.min(12).max(1)) as u16)
        } else {
            None
        };
        let alias_max = if self.cfg.v5 { self.cfg.alias_max } else { None };
        // C18, MQTT 5: the broker may impose its own keep-alive; from then on that
        // is the interval (the client also puts it into its later CONNECTs)
        let ska = if self.is(P::C18) && self.cfg.v5 && self.cfg.c18 == C18Mode::Answer && self.ch.coin(1, 4) {
            self.rep.probe("server_keep_alive_in_connack");
            Some(*self.ch.choose(&[1u16, 2, 3, 7, 20, 120]))
        } else {
            None
        };
        if self.is(P::C18) {
            let k = ska.unwrap_or(connect_keep_alive) as u64 * 1000;
            if self.k_eff_ms != Some(k) && self.cfg.c18 == C18Mode::Answer && k > 0 {
                // the run is measured in intervals of the keep-alive in force
                self.end_ms = now + 20 * k + 50;
            }
            self.k_eff_ms = Some(k);
        }
        self.connacks_sent += 1;
        {
            let c = &mut self.conns[idx];
            c.connack_sent = true;
            c.connack_ms = now;
            c.sp = sp;
            c.limit_eff = self.cfg.limit.min(recv_max.unwrap_or(u16::MAX));
            c.last_ping_ms = Some(now);
        }
        if recv_max.is_some() {
            self.rep.probe("receive_max_in_connack");
        }
        self.send(
            idx,
            Pk::ConnAck {
                sp,
                code: 0,
                recv_max,
                alias_max,
                ska,
            },
        );
        if first {
            return;
        }
        self.replay = None;
        self.fresh = None;
        if sp {
            self.rep.probe("session_resumed");
            self.start_replay_window(idx);
        } else {
            self.rep.probe("session_not_resumed");
            // the obligation of C02 ends for everything carried over
            for r in self.reqs.iter_mut() {
                if r.accepted {
                    r.released = true;
                }
            }
        }
        let epoch = self.epoch;
        if let Some(c) = self.carry.as_mut() {
            c.conn = Some(idx);
            c.sp = Some(sp);
            c.seen.clear();
            c.last_ftx = None;
            c.pending_checked = false;
            let _ = epoch;
        }
        if !sp && self.is(P::C11) {
            self.start_fresh_window(idx);
        }
    }

    // -----------------------------------------------------------------------
    // User actor
    // -----------------------------------------------------------------------

    pub fn user_request(&mut self) {
        let Some(k) = self.ch.weighted(&self.cfg.w_req.clone()) else {
            return;
        };
        let i = self.reqs.len();
        let now = self.now_ms();
        let (kind, key, topic, qos, ok) = match k {
            0 | 1 | 2 => {
                let payload = format!("m{i}").into_bytes();
                let topic = format!("t/{}", i % 3);
                let ok = self.handle.try_publish(&topic, k as u8, &payload);
                (ReqKind::Pub, payload, topic, k as u8, ok)
            }
            3 => {
                let f = format!("f/{i}");
                let ok = self.handle.try_subscribe(&f, 1);
                (ReqKind::Sub, f.clone().into_bytes(), f, 0, ok)
            }
            _ => {
                let f = format!("f/{i}");
                let ok = self.handle.try_unsubscribe(&f);
                let mut key = b"U:".to_vec();
                key.extend(f.as_bytes());
                (ReqKind::Unsub, key, f, 0, ok)
            }
        };
        if !ok {
            tr!(self.rep, "{now} user: channel full ({})", String::from_utf8_lossy(&key));
            self.rep.probe("channel_full");
            return;
        }
        self.user_left = self.user_left.saturating_sub(1);
        if qos == 2 {
            self.any_q2 = true;
        }
        tr!(self.rep, "{now} user: {:?} {} q{qos}", kind, String::from_utf8_lossy(&key));
        self.by_key.insert(key.clone(), i);
        self.reqs.push(Req {
            kind,
            key,
            topic,
            qos,
            epoch: self.epoch,
            accepted: false,
            seen_somewhere: false,
            wire_id: None,
            first_tx: None,
            final_acked: false,
            rec_sent: false,
            released: false,
            last_where: Where::Nowhere,
            was_parked: false,
            wired_since: false,
            from_pending: false,
            parked_mark: None,
            parked_id: 0,
            pre_acks: 0,
        });
    }

    /// manual_acks: the user acknowledges a received publish.
    fn user_manual_ack(&mut self) {
        if self.received_pubs.is_empty() {
            return;
        }
        let i = self.ch.pick(self.received_pubs.len() as u32) as usize;
        let p = self.received_pubs.remove(i);
        if let Pk::Publish { qos, pkid, .. } = &p {
            if self.handle.try_ack(&p) {
                self.rep.probe("manual_ack_issued");
                let now = self.now_ms();
                tr!(self.rep, "{now} user: ack {}", p.short());
                // the ack may be written on the current or (after a failure;
                // PubAck requests are dropped by clean(), PubRec are not) a
                // later connection: allow it wherever it shows up
                let code = if *qos == 1 { 4 } else { 5 };
                for c in self.conns.iter_mut() {
                    *c.acks_may.entry((code, *pkid)).or_insert(0) += 1;
                }
                self.pending_manual.push((code, *pkid));
            }
        }
    }

    // -----------------------------------------------------------------------
    // Scheduler: what happens while a poll is pending / between polls
    // -----------------------------------------------------------------------

    pub fn between(&mut self) {
        self.absorb();
        // new connections created later inherit the manual-ack allowances
        self.run_due();
        if self.viol.is_some() {
            return;
        }
        if self.is(P::C18) {
            self.c18_between();
            return;
        }
        let cur = self.cur();
        if self.quiet() {
            if let Some(idx) = cur {
                while self.script_ack(idx, true) {}
            }
            if self.is(P::C11) && self.replay.is_some() && self.user_left > 0 && self.ch.coin(1, 3) {
                self.user_request();
            }
            return;
        }
        let n = self.ch.pick(3) + 1;
        for _ in 0..n {
            let cur = self.cur();
            let owed = cur.map_or(false, |i| {
                self.conns[i].owed.iter().any(|o| !o.never && o.kind != OwedKind::PingResp)
            });
            let up = cur.map_or(false, |i| self.conns[i].connack_sent);
            let w = [
                if self.user_left > 0 { 4 } else { 0 },
                if owed { self.cfg.w_ack } else { 0 },
                if up { self.cfg.w_bad } else { 0 },
                if up { self.cfg.w_inbound } else { 0 },
                if up { self.cfg.w_close } else { 0 },
                if up && self.cfg.v5 { self.cfg.w_srv_disc } else { 0 },
                if self.cfg.manual_acks && !self.received_pubs.is_empty() { 3 } else { 0 },
                2,
            ];
            match self.ch.weighted(&w) {
                Some(0) => self.user_request(),
                Some(1) => {
                    self.script_ack(cur.unwrap(), false);
                }
                Some(2) => self.script_bad_ack(cur.unwrap()),
                Some(3) => self.script_inbound(cur.unwrap()),
                Some(4) => {
                    let idx = cur.unwrap();
                    let now = self.now_ms();
                    tr!(self.rep, "{now} script closes connection #{idx}");
                    self.rep.probe("script_closed_connection");
                    if self.ch.coin(1, 2) {
                        self.net.lock().unwrap().close_by_script(idx);
                    } else {
                        self.net.lock().unwrap().break_conn(idx);
                    }
                }
                Some(5) => {
                    let idx = cur.unwrap();
                    self.rep.probe("server_disconnect");
                    self.send(idx, Pk::Disconnect { reason: 1 });
                }
                Some(6) => self.user_manual_ack(),
                _ => {}
            }
            if self.viol.is_some() {
                return;
            }
        }
    }

    pub fn run_due_pub(&mut self) {
        self.run_due();
    }

    /// Time-driven script actions (delayed PINGRESP).
    fn run_due(&mut self) {
        let now = self.now_ms();
        let Some(idx) = self.cur() else { return };
        if self.silent {
            return;
        }
        loop {
            let pos = self.conns[idx]
                .owed
                .iter()
                .position(|o| o.kind == OwedKind::PingResp && o.due_ms.map_or(true, |d| d <= now));
            match pos {
                Some(p) => {
                    self.conns[idx].owed.remove(p);
                    self.send(idx, Pk::PingResp);
                }
                None => break,
            }
        }
    }

    /// Milliseconds until the next time-driven script action or deadline.
    fn next_due_in(&self) -> Option<u64> {
        let now = self.now_ms();
        let mut best: Option<u64> = None;
        let mut upd = |t: u64| {
            let d = t.saturating_sub(now);
            best = Some(best.map_or(d, |b: u64| b.min(d)));
        };
        if let Some(idx) = self.cur() {
            if !self.silent {
                for o in &self.conns[idx].owed {
                    if o.kind == OwedKind::PingResp {
                        if let Some(d) = o.due_ms {
                            upd(d);
                        }
                    }
                }
            }
        }
        if let Some(w) = &self.replay {
            upd(w.deadline_ms);
        }
        if let Some(w) = &self.fresh {
            upd(w.deadline_ms);
        }
        if let Some(w) = &self.drain {
            if let Some(d) = w.deadline_ms {
                upd(d);
            }
        }
        if let Some(t) = self.silent_at_ms {
            if !self.silent {
                upd(t);
            }
        }
        if self.is(P::C18) {
            upd(self.end_ms);
            if let Some(t) = self.c18_gap_due() {
                upd(t);
            }
            if let (true, Some(t), Some(d)) = (self.silent && self.user_left > 0, self.silent_t, self.c18_pub_delay) {
                if now < t + d {
                    upd(t + d);
                }
            }
        }
        best
    }

    pub fn budget(&mut self) -> Duration {
        let due = self.next_due_in();
        let mut ms: u64 = if self.is(P::C18) {
            *self.ch.choose(&[0u64, 1, 20, 300, 1000, 5000, 60_000])
        } else if self.quiet() {
            *self.ch.choose(&[0u64, 1, 10, 100, 400])
        } else if self.user_left == 0 {
            *self.ch.choose(&[0u64, 0, 1, 5, 50, 500])
        } else {
            *self.ch.choose(&[0u64, 0, 0, 0, 1, 5, 50])
        };
        // an honest broker answers the CONNECT promptly: while the handshake
        // is under way the script gets its turn every millisecond
        if self.is(P::C18)
            && !self.established
            && matches!(
                self.cfg.c18,
                C18Mode::Answer | C18Mode::Silent | C18Mode::SilentHalfOpen | C18Mode::SilentStalled | C18Mode::Zero
            )
        {
            ms = ms.min(1);
        }
        if let Some(d) = due {
            // land exactly on the next script deadline (+1 ms for windows so
            // that "now >= deadline" holds)
            ms = ms.min(d.max(0));
            if d == 0 {
                ms = 0;
            }
        }
        Duration::from_millis(ms)
    }

    // -----------------------------------------------------------------------
    // Windows (liveness clauses)
    // -----------------------------------------------------------------------

    fn start_replay_window(&mut self, idx: usize) {
        if !(self.is(P::C02) || self.is(P::C11)) {
            return;
        }
        let snap = &self.last_snap;
        let mut need_pubs = BTreeSet::new();
        let mut need_rels = BTreeSet::new();
        let mut parked = None;
        for r in snap.pending.iter().chain(snap.retrans.iter()) {
            match r {
                Rq::Publish { payload, qos, .. } if *qos > 0 => {
                    if let Some(&ri) = self.by_key.get(payload) {
                        if !self.reqs[ri].released && !self.reqs[ri].final_acked {
                            need_pubs.insert(ri);
                        }
                    }
                }
                Rq::PubRel(p) => {
                    need_rels.insert(*p);
                }
                _ => {}
            }
        }
        if let Some(Rq::Publish { payload, .. }) = &snap.collision {
            if let Some(&ri) = self.by_key.get(payload) {
                if !self.reqs[ri].released && !self.reqs[ri].final_acked {
                    need_pubs.insert(ri);
                    parked = Some(ri);
                }
            }
        }
        let now = self.now_ms();
        tr!(
            self.rep,
            "{now} replay window on #{idx}: {} publishes, {} releases",
            need_pubs.len(),
            need_rels.len()
        );
        if !need_pubs.is_empty() || !need_rels.is_empty() {
            self.nontrivial_marks |= 1;
        }
        self.replay = Some(ReplayWin {
            conn: idx,
            deadline_ms: now + 5000,
            need_pubs,
            need_rels,
            parked,
        });
    }

    fn start_fresh_window(&mut self, idx: usize) {
        let i = self.reqs.len();
        let payload = format!("fresh{i}").into_bytes();
        let topic = "t/fresh".to_string();
        if !self.handle.try_publish(&topic, 1, &payload) {
            self.rep.probe("fresh_request_channel_full");
            return;
        }
        let now = self.now_ms();
        tr!(self.rep, "{now} user: fresh request {} after a no-session CONNACK", String::from_utf8_lossy(&payload));
        self.by_key.insert(payload.clone(), i);
        self.reqs.push(Req {
            kind: ReqKind::Pub,
            key: payload,
            topic,
            qos: 1,
            epoch: self.epoch,
            accepted: false,
            seen_somewhere: false,
            wire_id: None,
            first_tx: None,
            final_acked: false,
            rec_sent: false,
            released: false,
            last_where: Where::Nowhere,
            was_parked: false,
            wired_since: false,
            from_pending: false,
            parked_mark: None,
            parked_id: 0,
            pre_acks: 0,
        });
        self.fresh = Some(FreshWin {
            conn: idx,
            deadline_ms: now + 1000,
            req: i,
            collision_at_start: self.last_snap.collision.is_some(),
        });
    }

    pub fn check_deadlines(&mut self) {
        let now = self.now_ms();
        if let Some(w) = &self.replay {
            let exempt: Vec<usize> = w
                .need_pubs
                .iter()
                .copied()
                .filter(|ri| self.reqs[*ri].final_acked || self.reqs[*ri].released)
                .collect();
            let w = self.replay.as_mut().unwrap();
            for ri in exempt {
                w.need_pubs.remove(&ri);
            }
            let w = self.replay.as_ref().unwrap();
            if w.need_pubs.is_empty() && w.need_rels.is_empty() {
                tr!(self.rep, "{now} replay window discharged");
                self.rep.probe("replay_complete");
                self.replay = None;
            } else if now >= w.deadline_ms {
                let what = if let Some(ri) = w.need_pubs.iter().next() {
                    let parked = w.parked == Some(*ri);
                    (
                        if parked { "parked_collision" } else { "publish" },
                        format!("publish {}", String::from_utf8_lossy(&self.reqs[*ri].key)),
                    )
                } else {
                    ("pubrel", format!("PUBREL {}", w.need_rels.iter().next().unwrap()))
                };
                let conn = w.conn;
                if self.is(P::C02) {
                    let v = if self.cfg.v5 { "v5" } else { "v4" };
                    self.violate(
                        format!("not_retransmitted:{}:{v}", what.0),
                        format!("5 s after the session was resumed on connection #{conn} (prompt in-order broker, continuous polling, no user action) {} held for retransmission has not been sent", what.1),
                    );
                }
                self.replay = None;
            }
        }
        if let Some(w) = &self.fresh {
            if self.reqs[w.req].first_tx.is_some() {
                self.rep.probe("fresh_request_sent");
                self.fresh = None;
            } else if now >= w.deadline_ms {
                let feature = if self.last_snap.collision.is_some() {
                    "collision_stuck"
                } else {
                    "other"
                };
                let conn = w.conn;
                self.violate(
                    format!("no_session_not_clean:fresh_request_not_sent:{feature}"),
                    format!("1 s after a CONNACK without session on connection #{conn} a fresh QoS1 request has not been transmitted (state.collision is {})", if self.last_snap.collision.is_some() { "still occupied" } else { "empty" }),
                );
                self.fresh = None;
            }
        }
        if self.drain.is_some() {
            self.check_drain(now);
        }
    }

    fn check_drain(&mut self, now: u64) {
        let Some(w) = &self.drain else { return };
        let conn = w.conn;
        let set = w.reqs.clone();
        let all_sent = set
            .iter()
            .all(|i| self.reqs[*i].first_tx.is_some() || self.reqs[*i].released);
        if all_sent {
            self.rep.probe("drain_complete");
            self.drain = None;
            self.drain_done = true;
            return;
        }
        // the 1 s clock starts once the script owes nothing (every ack that
        // frees the window has been sent)
        let owes = self.conns[conn]
            .owed
            .iter()
            .any(|o| o.kind != OwedKind::PingResp);
        let w = self.drain.as_mut().unwrap();
        if owes {
            w.deadline_ms = None;
            return;
        }
        match w.deadline_ms {
            None => w.deadline_ms = Some(now + 1000),
            Some(d) if now >= d => {
                let missing = set
                    .iter()
                    .copied()
                    .find(|i| self.reqs[*i].first_tx.is_none() && !self.reqs[*i].released)
                    .unwrap();
                let feature = if self.last_snap.collision.is_some() {
                    "collision_unresolved"
                } else if self.reqs[missing].was_parked {
                    "parked_publish_vanished"
                } else if self.last_snap.inflight >= self.limit_eff(conn) {
                    "window_not_released"
                } else {
                    "other"
                };
                let key = String::from_utf8_lossy(&self.reqs[missing].key).into_owned();
                let (infl, lim) = (self.last_snap.inflight, self.limit_eff(conn));
                self.violate(
                    format!("queued_request_not_sent:{feature}:{}", if self.cfg.v5 { "v5" } else { "v4" }),
                    format!("1 s after the broker acknowledged everything it had received on connection #{conn}, request {key} queued in the channel has not reached the wire (inflight()={infl}, limit={lim}, collision={:?})", self.last_snap.collision.as_ref().map(|c| c.short())),
                );
                self.drain = None;
                self.drain_done = true;
            }
            _ => {}
        }
    }

    pub fn maybe_start_drain(&mut self) {
        if !self.is(P::C07) || self.drain.is_some() || self.drain_done {
            return;
        }
        let Some(idx) = self.cur() else { return };
        if !self.conns[idx].connack_sent || !self.established {
            return;
        }
        let now = self.now_ms();
        tr!(self.rep, "{now} drain phase on #{idx}");
        for o in self.conns[idx].owed.iter_mut() {
            o.never = false;
        }
        // acks the script deliberately withheld forever are now due: a broker
        // that finally answers
        let owed_ids: BTreeSet<(u8, u16)> = self.conns[idx]
            .owed
            .iter()
            .map(|o| {
                (
                    match o.kind {
                        OwedKind::PubAck | OwedKind::PubRec => 0u8,
                        OwedKind::PubComp => 1,
                        _ => 2,
                    },
                    o.pkid,
                )
            })
            .collect();
        let _ = owed_ids;
        self.drain = Some(DrainWin {
            conn: idx,
            deadline_ms: None,
            reqs: (0..self.reqs.len()).filter(|i| !self.reqs[*i].accepted).collect(),
        });
    }

    // -----------------------------------------------------------------------
    // After a poll returned
    // -----------------------------------------------------------------------

    pub fn on_poll_return(&mut self, res: &Result<Ev, PErr>, el: &Loop) {
        self.polls += 1;
        self.absorb();
        let full = self.cfg.limit <= 1000 || self.polls % 64 == 0;
        let snap = el.snapshot(full);
        let now = self.now_ms();
        let mut clean_happened = false;
        match res {
            Ok(ev) => {
                tr!(
                    self.rep,
                    "{now} poll -> Ok({}) infl={} pend={} coll={} q={}",
                    match ev {
                        Ev::In(p) => format!("In {}", p.short()),
                        Ev::Out(o) => format!("Out {o:?}"),
                    },
                    snap.inflight,
                    snap.pending.len(),
                    snap.collision.as_ref().map_or("-".into(), |c| c.short()),
                    snap.queued.len()
                );
                self.established = true;
                self.on_event(ev, &snap);
            }
            Err(e) => {
                tr!(
                    self.rep,
                    "{now} poll -> Err({:?}) pend=[{}] coll={} q={}",
                    e.kind,
                    snap.pending.iter().map(|r| r.short()).collect::<Vec<_>>().join(" "),
                    snap.collision.as_ref().map_or("-".into(), |c| c.short()),
                    snap.queued.len()
                );
                self.errs += 1;
                self.epoch += 1;
                clean_happened = self.established;
                self.established = false;
                self.rep.probe(match e.kind {
                    ErrKind::Unsolicited(_) => "err_unsolicited",
                    ErrKind::AwaitPingResp => "keepalive_error",
                    ErrKind::CollisionTimeout => "err_collision_timeout",
                    ErrKind::ConnectionAborted => "err_connection_aborted",
                    ErrKind::ConnectTimeout => "err_connect_timeout",
                    ErrKind::FlushTimeout => "err_flush_timeout",
                    ErrKind::Io | ErrKind::StateIo => "err_io",
                    ErrKind::ServerDisconnect => "err_server_disconnect",
                    ErrKind::WrongPacket => "err_wrong_packet",
                    ErrKind::Deserialization => "err_deserialization",
                    _ => "err_other",
                });
                if self.replay.is_some() {
                    self.rep.probe("replay_interrupted");
                }
                self.void_windows("poll returned Err");
                self.on_err(e, clean_happened, &snap);
            }
        }
        self.update_acceptance(&snap, clean_happened);
        if full {
            self.check_held(&snap, res);
        }
        self.check_window_invariants(&snap, full);
        if let Err(_) = res {
            if clean_happened {
                self.build_carry(&snap);
            }
        } else {
            self.c11_after_ok_poll(&snap);
        }
        self.rep.state(
            (snap.inflight as u64) << 32
                | (snap.pending.len().min(255) as u64) << 24
                | (snap.collision.is_some() as u64) << 23
                | (snap.queued.len().min(127) as u64) << 16
                | (self.conns.len().min(15) as u64) << 12
                | (res.is_err() as u64) << 11
                | self.cur().map_or(0, |i| self.conns[i].owed.len().min(255)) as u64,
        );
        self.last_snap = snap;
        self.check_deadlines();
    }

    /// Which requests are known to have left the request channel.
    fn update_acceptance(&mut self, snap: &Snapshot, clean_happened: bool) {
        let mark = |w: &mut World<'_>, r: &Rq, wh: Where| {
            let key: Option<Vec<u8>> = match r {
                Rq::Publish { payload, .. } => Some(payload.clone()),
                Rq::Subscribe(f) => Some(f.clone().into_bytes()),
                Rq::Unsubscribe(f) => {
                    let mut k = b"U:".to_vec();
                    k.extend(f.as_bytes());
                    Some(k)
                }
                _ => None,
            };
            if let Some(key) = key {
                if let Some(&ri) = w.by_key.get(&key) {
                    w.reqs[ri].accepted = true;
                    w.reqs[ri].seen_somewhere = true;
                    if wh == Where::Collision {
                        w.reqs[ri].was_parked = true;
                        w.rep.probe("collision_seen");
                    }
                    if wh == Where::Pending {
                        w.reqs[ri].from_pending = true;
                    }
                }
            }
        };
        for r in &snap.pending {
            mark(self, r, Where::Pending);
        }
        for r in &snap.retrans {
            mark(self, r, Where::Retrans);
        }
        if let Some(c) = &snap.collision {
            mark(self, c, Where::Collision);
        }
        if clean_happened {
            // EventLoop::clean drained the channel: everything issued so far
            // is in the event loop's hands
            for r in self.reqs.iter_mut() {
                r.accepted = true;
            }
        } else {
            // FIFO channel: a later request out implies the earlier ones out
            if let Some(last) = self.reqs.iter().rposition(|r| r.accepted) {
                for r in self.reqs[..last].iter_mut() {
                    r.accepted = true;
                }
            }
        }
    }

    // -----------------------------------------------------------------------
    // End of run
    // -----------------------------------------------------------------------

    pub fn finish(&mut self, el: &Loop) {
        self.absorb();
        if self.viol.is_some() {
            return;
        }
        if self.is(P::C10) {
            let snap = el.snapshot(true);
            self.c10_finish(&snap);
        }
        if self.is(P::C18) {
            self.c18_finish();
        }
    }
}

/// One complete simulated run. `cut`: the enumerated crash point.
pub async fn simulate(w: &mut World<'_>, mut el: Loop) {
    w.t0 = Instant::now();
    if w.is(P::C18) {
        w.c18_setup();
    }
    let max_steps = w.cfg.max_steps;
    let mut steps = 0u32;
    let mut idle_polls = 0u32;
    'outer: loop {
        if w.viol.is_some() {
            break;
        }
        let res = {
            let mut fut = std::pin::pin!(el.poll());
            loop {
                steps += 1;
                if steps > max_steps || w.viol.is_some() {
                    break 'outer;
                }
                w.between();
                w.check_deadlines();
                if let Some(d) = w.c18_busy_pause() {
                    tokio::time::sleep(d).await;
                }
                if let Some(d) = w.c18_gap_pause() {
                    tokio::time::sleep(d).await;
                }
                if w.viol.is_some() || w.run_over(&mut idle_polls) {
                    break 'outer;
                }
                let b = w.budget();
                match tokio::time::timeout(b, fut.as_mut()).await {
                    Ok(r) => break r,
                    Err(_) => {
                        w.absorb();
                        w.on_poll_pending();
                        continue;
                    }
                }
            }
        };
        w.on_poll_return(&res, &el);
        idle_polls = 0;
    }
    w.rep.sim_time_ms = w.now_ms();
    w.finish(&el);
}

impl<'a> World<'a> {
    /// Nothing left to do: the run ends.
    fn run_over(&mut self, idle: &mut u32) -> bool {
        if self.is(P::C18) {
            return self.c18_done;
        }
        if self.user_left > 0 || self.quiet() {
            *idle = 0;
            return false;
        }
        if self.is(P::C07) && !self.drain_done {
            self.maybe_start_drain();
            if self.drain.is_some() {
                return false;
            }
        }
        // let the script finish what it owes, then a few more polls
        let owes = self.cur().map_or(false, |i| {
            self.conns[i].owed.iter().any(|o| !o.never && o.kind != OwedKind::PingResp)
        });
        if owes && self.cfg.w_ack > 0 {
            *idle = 0;
            return false;
        }
        *idle += 1;
        *idle > 12
    }

    /// A poll is still pending after its budget elapsed.
    fn on_poll_pending(&mut self) {
        if self.is(P::C18) {
            self.c18_tick();
        }
    }

    pub fn new(
        cfg: Cfg,
        ch: &'a mut Choices,
        rep: &'a mut RunReport,
        net: NetRef,
        handle: Handle,
    ) -> World<'a> {
        let user_left = cfg.n_requests;
        World {
            cfg,
            ch,
            rep,
            net,
            handle,
            t0: Instant::now(),
            reqs: Vec::new(),
            by_key: HashMap::new(),
            conns: Vec::new(),
            epoch: 0,
            established: false,
            viol: None,
            ftx: 0,
            last_ack_sent: None,
            user_left,
            any_q2: false,
            acks_in_order: true,
            last_snap: Snapshot::default(),
            polls: 0,
            errs: 0,
            connacks_sent: 0,
            faults_fired: 0,
            extra_cuts: 0,
            replay: None,
            fresh: None,
            carry: None,
            drain: None,
            drain_done: false,
            parked_key: None,
            new_wire: Vec::new(),
            leftover: VecDeque::new(),
            unsol_sent: false,
            inbound_seq: 0,
            received_pubs: Vec::new(),
            writes_refused: false,
            silent_at_ms: None,
            silent: false,
            detected: false,
            connect_started_ms: None,
            c18_done: false,
            oversize_done: false,
            c18_busy: false,
            c18_pub_delay: None,
            c18_gap: false,
            c18_gap_taken_for: None,
            k_eff_ms: None,
            c18_second_life: false,
            c18_break_at_ms: None,
            c18_break_on_ping: false,
            c18_break_pending: false,
            c18_broke: false,
            c18_break_reported: false,
            end_ms: u64::MAX,
            nontrivial_marks: 0,
            pending_manual: Vec::new(),
            last_new_pkid: None,
            silent_t: None,
            inspect_mark: (0, 0),
            reported_parked: BTreeSet::new(),
        }
    }
}

